//! C02 / C01 BOUNDED-NATIVE stand-in (never counted as proved): a BGZF file is a flat array of uncompressed bytes, whatever mix of
//! reads, buffered reads and seeks is applied to it — for the single-threaded Reader, the MultithreadedReader and the gzi-indexed
//! IndexedReader.  The block table (compressed offset, uncompressed length of every member) comes from an independent walk of the
//! BSIZE / ISIZE fields; the oracle is the payload that was written.  Operation sequences are a fixed function of the tier.
use std::{collections::BTreeMap, io::{BufRead, Cursor, Read, Seek, SeekFrom, Write}};
use noodles_bgzf as bgzf;

struct Rng(u64);
impl Rng {
    fn next(&mut self) -> u64 { let mut x = self.0; x ^= x << 13; x ^= x >> 7; x ^= x << 17; self.0 = x; x.wrapping_mul(0x2545F4914F6CDD1D) >> 11 }
    fn below(&mut self, n: usize) -> usize { (self.next() % n.max(1) as u64) as usize }
}

struct File { name: &'static str, bytes: Vec<u8>, data: Vec<u8>, /** (compressed offset, uncompressed start, uncompressed length) */ blocks: Vec<(u64, usize, usize)> }

fn payload(n: usize, seed: u64) -> Vec<u8> { let mut r = Rng(seed | 1); (0..n).map(|i| if i % 97 < 60 { b"ACGTNacgtn\n"[r.below(11)] } else { (r.next() & 0xff) as u8 }).collect() }

/// one BGZF file written with the given write / flush pattern (0 = flush)
fn write_file(data: &[u8], pattern: &[usize]) -> Result<Vec<u8>, String> {
    let mut w = bgzf::io::Writer::new(Vec::new()); let mut p = 0; let mut i = 0;
    while p < data.len() { let n = pattern[i % pattern.len()]; i += 1; if n == 0 { w.flush().map_err(|e| e.to_string())?; } else { let e = (p + n).min(data.len()); w.write_all(&data[p..e]).map_err(|e| e.to_string())?; p = e; } }
    w.finish().map_err(|e| e.to_string())
}
fn walk(bytes: &[u8]) -> Option<Vec<(u64, usize, usize)>> {
    let mut v = Vec::new(); let (mut p, mut u) = (0usize, 0usize);
    while p < bytes.len() { if p + 18 > bytes.len() { return None; } let bs = u16::from_le_bytes([bytes[p + 16], bytes[p + 17]]) as usize + 1; if p + bs > bytes.len() { return None; }
        let isize = u32::from_le_bytes(bytes[p + bs - 4..p + bs].try_into().ok()?) as usize; v.push((p as u64, u, isize)); u += isize; p += bs; }
    Some(v)
}
fn files(tier: &str) -> Result<Vec<File>, String> {
    let big = if tier == "thorough" { 900_000 } else { 400_000 };
    let mut out = Vec::new();
    let mk = |name: &'static str, parts: Vec<(usize, u64, Vec<usize>)>| -> Result<File, String> {
        let (mut bytes, mut data) = (Vec::new(), Vec::new());
        for (n, seed, pat) in parts { let d = payload(n, seed); bytes.extend(write_file(&d, &pat)?); data.extend(d); }
        let blocks = walk(&bytes).ok_or("the independent block walk fails on a written file")?;
        if blocks.iter().map(|b| b.2).sum::<usize>() != data.len() { return Err("the ISIZE fields do not add up to the payload length".into()); }
        Ok(File { name, bytes, data, blocks })
    };
    out.push(mk("one file, mixed block sizes", vec![(big, 1, vec![1, 100, 0, 65280, 0, 70000, 5, 0, 131_000, 12345, 0])])?);
    out.push(mk("small blocks", vec![(20_000, 2, vec![7, 0, 300, 0, 1, 0, 4096, 0])])?);
    // cat a.gz b.gz c.gz: the EOF markers of a and b are EMPTY blocks in the middle of the stream
    out.push(mk("three concatenated files (interior empty blocks)", vec![(70_000, 3, vec![40_000, 0]), (25, 4, vec![25]), (150_000, 5, vec![65280, 0, 9, 0])])?);
    out.push(mk("a 7-byte file", vec![(7, 6, vec![7])])?);
    Ok(out)
}

enum Rd { Single(bgzf::io::Reader<Cursor<Vec<u8>>>), Multi(bgzf::io::MultithreadedReader<Cursor<Vec<u8>>>) }
impl Rd {
    fn read(&mut self, b: &mut [u8]) -> std::io::Result<usize> { match self { Rd::Single(r) => r.read(b), Rd::Multi(r) => r.read(b) } }
    fn read_exact(&mut self, b: &mut [u8]) -> std::io::Result<()> { match self { Rd::Single(r) => r.read_exact(b), Rd::Multi(r) => r.read_exact(b) } }
    fn fill_buf(&mut self) -> std::io::Result<Vec<u8>> { match self { Rd::Single(r) => r.fill_buf().map(|s| s.to_vec()), Rd::Multi(r) => r.fill_buf().map(|s| s.to_vec()) } }
    fn consume(&mut self, n: usize) { match self { Rd::Single(r) => r.consume(n), Rd::Multi(r) => r.consume(n) } }
    fn vpos(&self) -> bgzf::VirtualPosition { match self { Rd::Single(r) => r.virtual_position(), Rd::Multi(r) => r.virtual_position() } }
    fn seek(&mut self, p: bgzf::VirtualPosition) -> std::io::Result<bgzf::VirtualPosition> { match self { Rd::Single(r) => r.seek(p), Rd::Multi(r) => bgzf::io::Seek::seek_to_virtual_position(r, p) } }
    fn seek_u(&mut self, ix: &bgzf::gzi::Index, p: u64) -> std::io::Result<u64> { match self { Rd::Single(r) => r.seek_by_uncompressed_position(ix, p), Rd::Multi(r) => bgzf::io::Seek::seek_with_index(r, ix, SeekFrom::Start(p)) } }
}

/// absolute uncompressed offset a virtual position denotes (None: it names no byte boundary of the file)
fn abs_of(f: &File, v: bgzf::VirtualPosition) -> Option<usize> {
    let (c, u) = (v.compressed(), v.uncompressed() as usize);
    if c == f.bytes.len() as u64 && u == 0 { return Some(f.data.len()); }
    f.blocks.iter().find(|b| b.0 == c).and_then(|b| if u <= b.2 { Some(b.1 + u) } else { None })
}

fn run_ops(f: &File, kind: &str, seed: u64, n_ops: usize, fails: &mut BTreeMap<String, String>) {
    let gzi = bgzf::gzi::Index::from(f.blocks.iter().skip(1).map(|b| (b.0, b.1 as u64)).collect::<Vec<_>>());
    let mut rd = if kind == "Reader" { Rd::Single(bgzf::io::Reader::new(Cursor::new(f.bytes.clone()))) } else { Rd::Multi(bgzf::io::MultithreadedReader::new(Cursor::new(f.bytes.clone()))) };
    let mut rng = Rng(seed | 1); let mut pos = 0usize; let mut trace: Vec<String> = Vec::new();
    let sizes = [1usize, 10, 300, 4096, 65535, 65536, 70000, 200_000];
    let mut fail = |key: &str, msg: String, trace: &Vec<String>| { fails.entry(format!("{kind} {} {key}", f.name)).or_insert_with(|| format!("bgzf {kind} on [{}]: {msg}; operations: {}", f.name, trace.iter().rev().take(6).rev().cloned().collect::<Vec<_>>().join(" -> "))); };
    for _ in 0..n_ops {
        let op = rng.below(100);
        if op < 30 { // read
            let n = sizes[rng.below(sizes.len())]; let mut b = vec![0u8; n]; trace.push(format!("read({n}) at {pos}"));
            match rd.read(&mut b) { Err(e) => { fail("read error", format!("read fails: {e}"), &trace); return; }
                Ok(k) => { if k > n || pos + k > f.data.len() || b[..k] != f.data[pos..pos + k] { fail("read bytes", format!("read({n}) at uncompressed offset {pos} returns {k} bytes that are not the bytes written there"), &trace); return; }
                    if k == 0 && pos < f.data.len() { fail("read 0", format!("read({n}) returns Ok(0) at uncompressed offset {pos} of {}", f.data.len()), &trace); return; } pos += k; } }
        } else if op < 40 { // read_exact
            let n = sizes[rng.below(5)].min(f.data.len() - pos); let mut b = vec![0u8; n]; trace.push(format!("read_exact({n}) at {pos}"));
            if let Err(e) = rd.read_exact(&mut b) { fail("read_exact error", format!("read_exact({n}) at {pos} fails: {e}"), &trace); return; }
            if b[..] != f.data[pos..pos + n] { fail("read_exact bytes", format!("read_exact({n}) at uncompressed offset {pos} returns other bytes than were written there"), &trace); return; } pos += n;
        } else if op < 55 { // fill_buf + consume
            trace.push(format!("fill_buf at {pos}"));
            match rd.fill_buf() { Err(e) => { fail("fill_buf error", format!("fill_buf fails: {e}"), &trace); return; }
                Ok(w) => { if pos + w.len() > f.data.len() || w[..] != f.data[pos..pos + w.len()] { fail("fill_buf bytes", format!("fill_buf at uncompressed offset {pos} hands out {} bytes that are not the bytes written there", w.len()), &trace); return; }
                    if w.is_empty() && pos < f.data.len() { fail("fill_buf empty", format!("fill_buf returns an empty slice at uncompressed offset {pos} of {}", f.data.len()), &trace); return; }
                    let k = if w.is_empty() { 0 } else { rng.below(w.len() + 1) }; rd.consume(k); pos += k; } }
        } else if op < 80 { // seek to a virtual position inside a (possibly empty) block
            let b = f.blocks[rng.below(f.blocks.len())]; let u = if b.2 == 0 { 0 } else { match rng.below(4) { 0 => 0, 1 => b.2 - 1, _ => rng.below(b.2) } };
            let v = bgzf::VirtualPosition::try_from((b.0, u as u16)).unwrap(); trace.push(format!("seek(({}, {u}))", b.0));
            match rd.seek(v) { Err(e) => { fail("seek error", format!("seek to the valid virtual position ({}, {u}) fails: {e}", b.0), &trace); return; } Ok(_) => { pos = b.1 + u; } }
        } else if op < 92 { // seek by uncompressed position through a gzi index
            let p = match rng.below(5) { 0 => 0, 1 => f.data.len().saturating_sub(1), 2 => { let b = f.blocks[rng.below(f.blocks.len())]; b.1 } _ => rng.below(f.data.len().max(1)) };
            trace.push(format!("seek_by_uncompressed_position({p})"));
            match rd.seek_u(&gzi, p as u64) { Err(e) => { fail("seek_u error", format!("seek to the valid uncompressed offset {p} of {} through the gzi index fails: {e}", f.data.len()), &trace); return; } Ok(_) => { pos = p; } }
        } else { // virtual_position must name the current offset
            trace.push(format!("virtual_position at {pos}"));
            let v = rd.vpos();
            if abs_of(f, v) != Some(pos) { fail("virtual_position", format!("virtual_position() is ({}, {}) at uncompressed offset {pos}, which is offset {:?}", v.compressed(), v.uncompressed(), abs_of(f, v)), &trace); return; }
        }
    }
}

pub fn bgzf_seek_read(tier: &str) -> Result<String, String> {
    let fs = files(tier)?;
    let mut fails: BTreeMap<String, String> = BTreeMap::new();
    let (seeds, n_ops) = if tier == "thorough" { (40u64, 400) } else { (12, 250) };
    let mut cases = 0u64;
    std::panic::set_hook(Box::new(|_| {}));
    for f in &fs { for kind in ["Reader", "MultithreadedReader"] { for s in 0..seeds {
        cases += 1;
        let r = std::panic::catch_unwind(std::panic::AssertUnwindSafe(|| { let mut local = BTreeMap::new(); run_ops(f, kind, 0x9E3779B97F4A7C15u64.wrapping_mul(s + 1) ^ 0xABCD, n_ops, &mut local); local }));
        match r { Err(_) => { fails.entry(format!("{kind} {} panic", f.name)).or_insert_with(|| format!("bgzf {kind} on [{}]: PANICS under a sequence of reads and valid seeks (seed {s})", f.name)); } Ok(l) => { for (k, v) in l { fails.entry(k).or_insert(v); } } }
    } }
        // edge seeks (F1 / F16 / F56): the end of a stream WITHOUT the EOF marker, and an uncompressed offset past the end of its block
        for kind in ["Reader", "MultithreadedReader"] { cases += 1;
            let r = std::panic::catch_unwind(std::panic::AssertUnwindSafe(|| -> Result<(), String> {
                let last = *f.blocks.last().unwrap();
                if last.2 == 0 && f.blocks.len() >= 2 { // strip the trailing EOF marker: still a valid BGZF stream
                    let cut = f.bytes[..last.0 as usize].to_vec();
                    let mut rd = if kind == "Reader" { Rd::Single(bgzf::io::Reader::new(Cursor::new(cut.clone()))) } else { Rd::Multi(bgzf::io::MultithreadedReader::new(Cursor::new(cut.clone()))) };
                    let mut b = [0u8; 3]; rd.read_exact(&mut b[..3.min(f.data.len())]).map_err(|e| format!("read_exact fails: {e}"))?;
                    let end = bgzf::VirtualPosition::try_from((cut.len() as u64, 0u16)).unwrap();
                    rd.seek(end).map_err(|e| format!("seek to the end of a marker-less stream fails: {e}"))?;
                    let v = rd.vpos(); if (v.compressed(), v.uncompressed()) != (cut.len() as u64, 0) { return Err(format!("after a seek to the end ({}, 0) of a marker-less stream virtual_position() is ({}, {})", cut.len(), v.compressed(), v.uncompressed())); }
                    let mut rest = Vec::new(); let mut buf = [0u8; 64]; loop { let k = rd.read(&mut buf).map_err(|e| e.to_string())?; if k == 0 { break; } rest.extend_from_slice(&buf[..k]); if rest.len() > 1000 { break; } }
                    if !rest.is_empty() { return Err(format!("after a seek to the end of a marker-less stream {} more bytes are read", rest.len())); }
                }
                let b = f.blocks[0]; if b.2 < 65535 { let bad = bgzf::VirtualPosition::try_from((b.0, (b.2 + 1) as u16)).unwrap();
                    let mut rd = if kind == "Reader" { Rd::Single(bgzf::io::Reader::new(Cursor::new(f.bytes.clone()))) } else { Rd::Multi(bgzf::io::MultithreadedReader::new(Cursor::new(f.bytes.clone()))) };
                    if rd.seek(bad).is_ok() { return Err(format!("a seek to ({}, {}) — one past the {} bytes of that block — is accepted", b.0, b.2 + 1, b.2)); } }
                Ok(()) }));
            match r { Err(_) => { fails.entry(format!("{kind} {} edge panic", f.name)).or_insert_with(|| format!("bgzf {kind} on [{}]: PANICS on an edge seek", f.name)); } Ok(Err(e)) => { fails.entry(format!("{kind} {} edge", f.name)).or_insert_with(|| format!("bgzf {kind} on [{}]: {e}", f.name)); } Ok(Ok(())) => {} } }
        // IndexedReader: std::io::Seek by uncompressed offset, then a read
        { cases += 1; let gzi = bgzf::gzi::Index::from(f.blocks.iter().skip(1).map(|b| (b.0, b.1 as u64)).collect::<Vec<_>>());
          let r = std::panic::catch_unwind(std::panic::AssertUnwindSafe(|| -> Result<(), String> {
              let mut rd = bgzf::io::IndexedReader::new(Cursor::new(f.bytes.clone()), gzi); let mut rng = Rng(77);
              for _ in 0..200 { let p = rng.below(f.data.len().max(1)); let n = [1usize, 100, 70000][rng.below(3)].min(f.data.len() - p);
                  rd.seek(SeekFrom::Start(p as u64)).map_err(|e| format!("seek(Start({p})) fails: {e}"))?; let mut b = vec![0u8; n]; rd.read_exact(&mut b).map_err(|e| format!("read_exact({n}) after seek(Start({p})) fails: {e}"))?;
                  if b[..] != f.data[p..p + n] { return Err(format!("the {n} bytes read after seek(Start({p})) are not the bytes written there")); } }
              Ok(()) }));
          match r { Err(_) => { fails.entry(format!("IndexedReader {} panic", f.name)).or_insert_with(|| format!("bgzf IndexedReader on [{}]: PANICS", f.name)); } Ok(Err(e)) => { fails.entry(format!("IndexedReader {}", f.name)).or_insert_with(|| format!("bgzf IndexedReader on [{}]: {e}", f.name)); } Ok(Ok(())) => {} } }
    }
    let _ = std::panic::take_hook();
    if fails.is_empty() { Ok(format!("\"cases\":{cases}")) } else { Err(format!("FAILURES\n{}", fails.values().cloned().collect::<Vec<_>>().join("\n"))) }
}
