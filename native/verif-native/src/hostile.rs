//! C15 "for all single-byte substitutions and truncations of valid files and indexes": SAMPLED stand-in (never counted as
//! proved).  For every target a small valid file is produced with noodles' own writers (or written out by hand for the
//! text formats), every truncation and a fixed set of substitutions at every position are applied, and the mutated
//! bytes are read back with the real reader, touching every field of every record that is returned Ok.
//! A panic, an abort (single allocation request above 1 GiB, see main.rs) or a hang (no result within HANG_S seconds) is
//! a failure; Ok or Err is fine.  Inputs are a fixed function of the tier: results are reproducible.
use crate::bounded::{hex, run_children, HANG_S};
use noodles_bam as bam;
use noodles_bcf as bcf;
use noodles_sam as sam;
use noodles_vcf as vcf;

// An iterator handed out by a reader that yields more than ITER_LIMIT items from an input of a few hundred bytes never ends
// (typically: the same Err again and again because the failing parser did not consume anything).  Consumers such as
// `.filter_map(Result::ok)` or `.count()` then loop forever.  Recorded as its own failure kind, without waiting for the watchdog.
pub const ITER_LIMIT: usize = 1 << 25;   // above 2^24 (the largest sample count a BCF record can announce)
pub const VISIT: usize = 256;
thread_local! { pub static ENDLESS: std::cell::RefCell<Option<&'static str>> = const { std::cell::RefCell::new(None) }; }
fn each<I: Iterator>(what: &'static str, it: I, mut f: impl FnMut(I::Item)) {
    let mut n = 0usize;
    // every item is pulled (up to ITER_LIMIT, to tell "long" from "endless"); only the first VISIT items are looked into
    for x in it { n += 1; if n > ITER_LIMIT { ENDLESS.with(|e| *e.borrow_mut() = Some(what)); return; } if n <= VISIT { f(x); } }
}
pub struct Target { pub name: &'static str, pub seeds: fn() -> Vec<Vec<u8>>, pub run: fn(&[u8]) }

pub fn targets() -> Vec<Target> {
    vec![
        Target { name: "bam", seeds: bam_seeds, run: run_bam },
        Target { name: "bam-lazy", seeds: bam_seeds, run: run_bam_lazy },
        Target { name: "bcf", seeds: bcf_seeds, run: run_bcf },
        Target { name: "bcf-lazy", seeds: bcf_seeds, run: run_bcf_lazy },
        Target { name: "sam", seeds: sam_seeds, run: run_sam },
        Target { name: "sam-lazy", seeds: sam_seeds, run: run_sam_lazy },
        Target { name: "vcf", seeds: vcf_seeds, run: run_vcf },
        Target { name: "vcf-lazy", seeds: vcf_seeds, run: run_vcf_lazy },
        Target { name: "fasta", seeds: fasta_seeds, run: run_fasta },
        Target { name: "fastq", seeds: fastq_seeds, run: run_fastq },
        Target { name: "gff", seeds: gff_seeds, run: run_gff },
        Target { name: "gtf", seeds: gtf_seeds, run: run_gtf },
        Target { name: "bed", seeds: bed_seeds, run: run_bed },
        Target { name: "bai", seeds: bai_seeds, run: run_bai },
        Target { name: "csi", seeds: csi_seeds, run: run_csi },
        Target { name: "tabix", seeds: tabix_seeds, run: run_tabix },
        Target { name: "gzi", seeds: gzi_seeds, run: run_gzi },
        Target { name: "fai", seeds: fai_seeds, run: run_fai },
        Target { name: "bgzf", seeds: bgzf_seeds, run: run_bgzf },
        Target { name: "cram", seeds: cram_seeds, run: run_cram },
        Target { name: "cram-resealed", seeds: cram_raw_seeds, run: run_cram_resealed },
    ]
}

pub fn inputs(t: &Target, tier: &str) -> Vec<Vec<u8>> {
    let mut v: Vec<Vec<u8>> = vec![vec![]];
    let cap = if tier == "thorough" { 4000 } else { 700 };
    for s in (t.seeds)() {
        v.push(s.clone());
        let n = s.len().min(cap);
        // truncations
        for k in 0..n { v.push(s[..k].to_vec()); }
        if s.len() > n { for k in (n..s.len()).step_by(17) { v.push(s[..k].to_vec()); } }
        // substitutions: a fixed set per position
        for i in 0..n {
            let subs: &[u8] = if tier == "thorough" { &[0x00, 0xff, 0x7f, 0x80, 0x01, b'\t', b'\n', b',', b';', b'=', b'-', b'0', b'9', b'.', b':', b'*'] } else { &[0x00, 0xff, 0x80, b'\t', b'\n', b'-', b'.', b'9'] };
            for &f in subs { if f != s[i] { let mut m = s.clone(); m[i] = f; v.push(m); } }
            for f in [s[i] ^ 0x01, s[i].wrapping_add(1), s[i].wrapping_sub(1)] { let mut m = s.clone(); m[i] = f; v.push(m); }
        }
    }
    v
}

pub fn child(name: &str, tier: &str, cur_path: &str, start: usize) {
    static LOC: std::sync::Mutex<String> = std::sync::Mutex::new(String::new());
    std::panic::set_hook(Box::new(|info| { if let Some(l) = info.location() {
        let f = l.file(); let f = match f.find("/noodles-") { Some(i) => &f[i + 1..], None => match f.find("library/") { Some(i) => &f[i..], None => f } };
        *LOC.lock().unwrap() = format!("{}:{}", f, l.line()); } }));
    let ts = targets();
    let t = match ts.iter().find(|t| t.name == name) { Some(t) => t, None => std::process::exit(2) };
    let inputs = inputs(t, tier);
    static CASE_START: std::sync::atomic::AtomicU64 = std::sync::atomic::AtomicU64::new(0);
    let t0 = std::time::Instant::now();
    std::thread::spawn(move || loop {
        std::thread::sleep(std::time::Duration::from_secs(1));
        let st = CASE_START.load(std::sync::atomic::Ordering::Relaxed);
        if st != 0 && t0.elapsed().as_secs() > st + HANG_S { std::process::exit(3); }
    });
    let mut n = 0u64;
    for (idx, x) in inputs.iter().enumerate().skip(start) {
        let _ = std::fs::write(cur_path, format!("{idx} {}", hex(x)));
        CASE_START.store(t0.elapsed().as_secs().max(1), std::sync::atomic::Ordering::Relaxed);
        ENDLESS.with(|e| *e.borrow_mut() = None);
        let r = std::panic::catch_unwind(|| (t.run)(x));
        n += 1;
        if r.is_err() { println!("FAIL PANICS at {}\t{}", LOC.lock().unwrap(), hex(x)); }
        else if let Some(w) = ENDLESS.with(|e| *e.borrow()) { println!("FAIL NEVER ENDS: {w} yields more than {ITER_LIMIT} items\t{}", hex(x)); }
    }
    CASE_START.store(0, std::sync::atomic::Ordering::Relaxed);
    println!("DONE {n}");
}

pub fn parent(tier: &str, only: Option<&str>) -> Result<String, String> {
    let names: Vec<&'static str> = targets().iter().map(|t| t.name).filter(|n| only.map_or(true, |o| o == *n)).collect();
    run_children(&names, "child-file-", tier, "readers on mutated files")
}

// ------------------------------------------------------------------------------------------------ seeds
fn sam_header() -> sam::Header {
    "@HD\tVN:1.6\tSO:coordinate\n@SQ\tSN:sq0\tLN:1000\n@SQ\tSN:sq1\tLN:2000\n@RG\tID:rg0\n@PG\tID:pg0\tPN:x\n@CO\tnote\n".parse().unwrap()
}
const SAM_BODY: &str = "r0\t99\tsq0\t5\t40\t2S4M1I2M1D1M\t=\t50\t60\tACGTACGTAC\tIIIIIIIIII\tNM:i:2\tRG:Z:rg0\tXA:A:c\tXF:f:1.5\tXH:H:CAFE\tXB:B:c,-1,2\tXC:B:C,1,2\tXS:B:s,-300,5\tXT:B:S,7,8\tXI:B:i,-70000\tXJ:B:I,70000\tXG:B:f,0.5,2\n\
r1\t147\tsq0\t50\t30\t10M\t=\t5\t-60\tTTTTTTTTTT\t*\tMC:Z:4M\n\
r2\t4\t*\t0\t255\t*\t*\t0\t0\tAC\t!!\n\
r3\t0\tsq1\t1999\t0\t1M\t*\t0\t0\tA\tI\tX0:i:255\tX1:i:-129\tX2:i:65536\tX3:i:-2147483648\n";
fn sam_seeds() -> Vec<Vec<u8>> { let h = "@HD\tVN:1.6\tSO:coordinate\n@SQ\tSN:sq0\tLN:1000\n@SQ\tSN:sq1\tLN:2000\n@RG\tID:rg0\n@PG\tID:pg0\tPN:x\n@CO\tnote\n"; vec![format!("{h}{SAM_BODY}").into_bytes()] }
fn bam_seeds() -> Vec<Vec<u8>> {
    use sam::alignment::io::Write as _;
    let header = sam_header();
    let mut rd = sam::io::Reader::new(SAM_BODY.as_bytes());
    let mut w = bam::io::Writer::from(Vec::new());
    w.write_header(&header).unwrap();
    for r in rd.record_bufs(&header) { let r = r.unwrap(); w.write_alignment_record(&header, &r).unwrap(); }
    vec![w.get_ref().clone()]
}
const VCF_TEXT: &str = "##fileformat=VCFv4.3\n##INFO=<ID=DP,Number=1,Type=Integer,Description=\"d\">\n##INFO=<ID=AF,Number=A,Type=Float,Description=\"a\">\n##INFO=<ID=DB,Number=0,Type=Flag,Description=\"f\">\n##INFO=<ID=AA,Number=1,Type=String,Description=\"s\">\n##INFO=<ID=AC,Number=A,Type=Integer,Description=\"c\">\n##INFO=<ID=END,Number=1,Type=Integer,Description=\"e\">\n##FILTER=<ID=PASS,Description=\"All filters passed\">\n##FILTER=<ID=q10,Description=\"q\">\n##FORMAT=<ID=GT,Number=1,Type=String,Description=\"g\">\n##FORMAT=<ID=DP,Number=1,Type=Integer,Description=\"d\">\n##FORMAT=<ID=AD,Number=R,Type=Integer,Description=\"a\">\n##FORMAT=<ID=GL,Number=G,Type=Float,Description=\"l\">\n##FORMAT=<ID=FT,Number=1,Type=String,Description=\"t\">\n##contig=<ID=sq0,length=1000>\n##contig=<ID=sq1,length=2000>\n#CHROM\tPOS\tID\tREF\tALT\tQUAL\tFILTER\tINFO\tFORMAT\ts0\ts1\n\
sq0\t10\trs1;rs2\tA\tC,G\t30.5\tPASS\tDP=14;AF=0.5,0.25;DB;AA=x%3By;AC=1,300\tGT:DP:AD:GL:FT\t0|1:10:5,3,2:-1,-2,-3,-4,-5,-6:PASS\t1/2:.:70000,.,1:.:q10\n\
sq0\t20\t.\tAC\tA\t.\tq10\tEND=25\tGT\t./.\t0\n\
sq1\t5\t.\tN\t<DEL>\t1\t.\t.\tDP\t1\t-200\n";
fn vcf_seeds() -> Vec<Vec<u8>> { vec![VCF_TEXT.as_bytes().to_vec()] }
fn bcf_seeds() -> Vec<Vec<u8>> {
    use vcf::variant::io::Write as _;
    let mut rd = vcf::io::Reader::new(VCF_TEXT.as_bytes());
    let header = rd.read_header().unwrap();
    let mut w = bcf::io::Writer::from(Vec::new());
    w.write_header(&header).unwrap();
    for r in rd.record_bufs(&header) { let r = r.unwrap(); w.write_variant_record(&header, &r).unwrap(); }
    vec![w.get_ref().clone()]
}
fn fasta_seeds() -> Vec<Vec<u8>> { vec![b">sq0 desc\nACGT\nACGT\nAC\n>sq1\nNNNN\r\nNN\r\n\n".to_vec()] }
fn fastq_seeds() -> Vec<Vec<u8>> { vec![b"@r0 d\nACGT\n+\nIIII\n@r1\nAC\n+r1\n@+\n".to_vec()] }
fn gff_seeds() -> Vec<Vec<u8>> { vec![b"##gff-version 3\n##sequence-region sq0 1 100\nsq0\tsrc\tgene\t1\t10\t0.5\t+\t0\tID=g0;Name=a%3Bb,c;Parent=p0,p1\nsq0\t.\texon\t2\t5\t.\t-\t.\tID=e0\n# c\n##FASTA\n>sq0\nACGT\n".to_vec()] }
fn gtf_seeds() -> Vec<Vec<u8>> { vec![b"sq0\tsrc\tgene\t1\t10\t0.5\t+\t0\tgene_id \"g\\\"0\"; transcript_id \"t0\"; tag \"a\"; tag \"b\";\nsq0\t.\texon\t2\t5\t.\t-\t.\tgene_id \"g0\";\n".to_vec()] }
fn bed_seeds() -> Vec<Vec<u8>> { vec![b"track name=x\nsq0\t0\t10\tn0\t5\t+\t1\t9\t255,0,0\t2\t3,4\t0,6\nsq1\t5\t6\n".to_vec()] }
fn bai_seeds() -> Vec<Vec<u8>> {
    use noodles_csi::binning_index::Indexer;
    let mut ix = Indexer::<noodles_csi::binning_index::index::reference_sequence::index::LinearIndex>::new(14, 5);
    let vp = |c: u64, u: u16| noodles_bgzf::VirtualPosition::try_from((c, u)).unwrap();
    let p = |n: usize| noodles_core::Position::new(n).unwrap();
    ix.add_record(Some((0, p(5), p(14), true)), noodles_csi::binning_index::index::reference_sequence::bin::Chunk::new(vp(0, 10), vp(0, 100))).unwrap();
    ix.add_record(Some((0, p(20000), p(20100), true)), noodles_csi::binning_index::index::reference_sequence::bin::Chunk::new(vp(0, 100), vp(200, 0))).unwrap();
    ix.add_record(Some((1, p(1), p(10), false)), noodles_csi::binning_index::index::reference_sequence::bin::Chunk::new(vp(200, 0), vp(300, 5))).unwrap();
    ix.add_record(None, noodles_csi::binning_index::index::reference_sequence::bin::Chunk::new(vp(300, 5), vp(400, 0))).unwrap();
    let index = ix.build(2);
    let mut w = bam::bai::io::Writer::new(Vec::new());
    w.write_index(&index).unwrap();
    vec![w.get_ref().clone()]
}
fn csi_index() -> noodles_csi::Index {
    use noodles_csi::binning_index::Indexer;
    let mut ix = Indexer::<noodles_csi::binning_index::index::reference_sequence::index::BinnedIndex>::new(14, 5);
    let vp = |c: u64, u: u16| noodles_bgzf::VirtualPosition::try_from((c, u)).unwrap();
    let p = |n: usize| noodles_core::Position::new(n).unwrap();
    ix.add_record(Some((0, p(5), p(14), true)), noodles_csi::binning_index::index::reference_sequence::bin::Chunk::new(vp(0, 10), vp(0, 100))).unwrap();
    ix.add_record(Some((0, p(20000), p(20100), true)), noodles_csi::binning_index::index::reference_sequence::bin::Chunk::new(vp(0, 100), vp(200, 0))).unwrap();
    ix.add_record(Some((1, p(1), p(10), false)), noodles_csi::binning_index::index::reference_sequence::bin::Chunk::new(vp(200, 0), vp(300, 5))).unwrap();
    let ix = ix.set_header(noodles_csi::binning_index::index::header::Builder::vcf().set_reference_sequence_names([String::from("sq0").into(), String::from("sq1").into()].into_iter().collect()).build());
    ix.build(2)
}
// csi / tabix files are BGZF streams: the seeds here are the UNCOMPRESSED payloads; run_* compress them again ("re-sealed")
fn csi_seeds() -> Vec<Vec<u8>> {
    let mut w = noodles_csi::io::Writer::new(Vec::new());
    w.write_index(&csi_index()).unwrap();
    let z = w.into_inner().finish().unwrap();
    vec![inflate_all(&z)]
}
fn tabix_seeds() -> Vec<Vec<u8>> {
    use noodles_csi::binning_index::Indexer;
    let mut ix = Indexer::<noodles_csi::binning_index::index::reference_sequence::index::LinearIndex>::new(14, 5);
    let vp = |c: u64, u: u16| noodles_bgzf::VirtualPosition::try_from((c, u)).unwrap();
    let p = |n: usize| noodles_core::Position::new(n).unwrap();
    ix.add_record(Some((0, p(5), p(14), true)), noodles_csi::binning_index::index::reference_sequence::bin::Chunk::new(vp(0, 10), vp(0, 100))).unwrap();
    ix.add_record(Some((1, p(1), p(10), true)), noodles_csi::binning_index::index::reference_sequence::bin::Chunk::new(vp(200, 0), vp(300, 5))).unwrap();
    let ix = ix.set_header(noodles_csi::binning_index::index::header::Builder::vcf().set_reference_sequence_names([String::from("sq0").into(), String::from("sq1").into()].into_iter().collect()).build());
    let index = ix.build(2);
    let mut w = noodles_tabix::io::Writer::new(Vec::new());
    w.write_index(&index).unwrap();
    let z = w.into_inner().finish().unwrap();
    vec![inflate_all(&z)]
}
fn gzi_seeds() -> Vec<Vec<u8>> { let mut v = 2u64.to_le_bytes().to_vec(); for n in [4668u64, 21294, 23810, 86529] { v.extend(n.to_le_bytes()); } vec![v] }
fn fai_seeds() -> Vec<Vec<u8>> { vec![b"sq0\t10\t5\t4\t5\nsq1\t6\t30\t4\t6\n".to_vec()] }
fn bgzf_seeds() -> Vec<Vec<u8>> { vec![deflate_all(b"noodles-bgzf payload 0123456789"), { let mut a = deflate_all(b"first"); let b = deflate_all(b"second block"); a.truncate(a.len() - 28); a.extend(b); a }] }
fn cram_seeds() -> Vec<Vec<u8>> {
    use sam::alignment::io::Write as _;
    let header = sam_header();
    let mut rd = sam::io::Reader::new(SAM_BODY.as_bytes());
    let repo = cram_repo();
    let mut w = noodles_cram::io::writer::Builder::default().set_reference_sequence_repository(repo).build_from_writer(Vec::new());
    w.write_header(&header).unwrap();
    for r in rd.record_bufs(&header) { let r = r.unwrap(); w.write_alignment_record(&header, &r).unwrap(); }
    w.try_finish(&header).unwrap();
    vec![w.get_ref().clone()]
}
fn cram_repo() -> noodles_fasta::Repository {
    noodles_fasta::Repository::new(vec![
        noodles_fasta::Record::new(noodles_fasta::record::Definition::new("sq0", None), noodles_fasta::record::Sequence::from(vec![b'A'; 1000])),
        noodles_fasta::Record::new(noodles_fasta::record::Definition::new("sq1", None), noodles_fasta::record::Sequence::from(vec![b'C'; 2000])),
    ])
}
fn deflate_all(x: &[u8]) -> Vec<u8> { use std::io::Write as _; let mut w = noodles_bgzf::io::Writer::new(Vec::new()); w.write_all(x).unwrap(); w.finish().unwrap() }
fn inflate_all(z: &[u8]) -> Vec<u8> { use std::io::Read as _; let mut v = Vec::new(); noodles_bgzf::io::Reader::new(z).read_to_end(&mut v).unwrap(); v }

// ------------------------------------------------------------------------------------------------ readers
fn touch_alignment<R: sam::alignment::Record + ?Sized>(h: &sam::Header, r: &R) {
    let _ = r.name().map(|n| n.len());
    let _ = r.flags(); let _ = r.reference_sequence_id(h).map(|x| x.ok()); let _ = r.alignment_start().map(|x| x.ok());
    let _ = r.mapping_quality().map(|x| x.ok());
    each("alignment Record::cigar().iter()", r.cigar().iter(), |op| { let _ = op; });
    let _ = r.mate_reference_sequence_id(h).map(|x| x.ok()); let _ = r.mate_alignment_start().map(|x| x.ok()); let _ = r.template_length();
    each("alignment Record::sequence().iter()", r.sequence().iter(), |b| { let _ = b; });
    each("alignment Record::quality_scores().iter()", r.quality_scores().iter(), |q| { let _ = q; });
    each("alignment Record::data().iter()", r.data().iter(), |f| { if let Ok((_, v)) = f { touch_value(&v); } });
    let _ = r.alignment_span(); let _ = r.alignment_end(); let _ = r.reference_sequence(h);
    let _ = sam::alignment::RecordBuf::try_from_alignment_record(h, r);
}
fn touch_value(v: &sam::alignment::record::data::field::Value<'_>) {
    use sam::alignment::record::data::field::{value::Array, Value};
    match v {
        Value::Array(a) => match a {
            Array::Int8(x) => each("data array iter", x.iter(), |e| { let _ = e; }), Array::UInt8(x) => each("data array iter", x.iter(), |e| { let _ = e; }),
            Array::Int16(x) => each("data array iter", x.iter(), |e| { let _ = e; }), Array::UInt16(x) => each("data array iter", x.iter(), |e| { let _ = e; }),
            Array::Int32(x) => each("data array iter", x.iter(), |e| { let _ = e; }), Array::UInt32(x) => each("data array iter", x.iter(), |e| { let _ = e; }),
            Array::Float(x) => each("data array iter", x.iter(), |e| { let _ = e; }),
        },
        Value::String(s) => { let _ = s.len(); } Value::Hex(s) => { let _ = s.len(); }
        other => { let _ = other.as_int(); }
    }
}
const MAX_RECORDS: usize = 64;
fn run_bam(x: &[u8]) {
    let mut rd = bam::io::Reader::from(x);
    let Ok(h) = rd.read_header() else { return; };
    let mut rec = sam::alignment::RecordBuf::default();
    let mut n = 0;
    while let Ok(k) = rd.read_record_buf(&h, &mut rec) { if k == 0 || n > MAX_RECORDS { break; } n += 1; touch_alignment(&h, &rec); }
}
fn run_bam_lazy(x: &[u8]) {
    let mut rd = bam::io::Reader::from(x);
    let Ok(h) = rd.read_header() else { return; };
    let mut rec = bam::Record::default();
    let mut n = 0;
    while let Ok(k) = rd.read_record(&mut rec) { if k == 0 || n > MAX_RECORDS { break; } n += 1; touch_alignment(&h, &rec); }
}
fn run_sam(x: &[u8]) {
    let mut rd = sam::io::Reader::new(x);
    let Ok(h) = rd.read_header() else { return; };
    let mut rec = sam::alignment::RecordBuf::default();
    let mut n = 0;
    while let Ok(k) = rd.read_record_buf(&h, &mut rec) { if k == 0 || n > MAX_RECORDS { break; } n += 1; touch_alignment(&h, &rec); }
}
fn run_sam_lazy(x: &[u8]) {
    let mut rd = sam::io::Reader::new(x);
    let Ok(h) = rd.read_header() else { return; };
    let mut rec = sam::Record::default();
    let mut n = 0;
    while let Ok(k) = rd.read_record(&mut rec) { if k == 0 || n > MAX_RECORDS { break; } n += 1; touch_alignment(&h, &rec); }
}
fn touch_variant<R: vcf::variant::Record + ?Sized>(h: &vcf::Header, r: &R) {
    let _ = r.reference_sequence_name(h); let _ = r.variant_start().map(|x| x.ok());
    each("variant Record::ids().iter()", r.ids().iter(), |id| { let _ = id.len(); });
    each("variant Record::reference_bases().iter()", r.reference_bases().iter(), |b| { let _ = b; });
    each("variant Record::alternate_bases().iter()", r.alternate_bases().iter(), |a| { let _ = a.map(|s| s.len()); });
    let _ = r.quality_score().map(|x| x.ok());
    each("variant Record::filters().iter()", r.filters().iter(h), |f| { let _ = f.map(|s| s.len()); });
    each("variant Record::info().iter()", r.info().iter(h), |f| { if let Ok((_, Some(v))) = f { touch_info_value(&v); } });
    if let Ok(samples) = r.samples() {
        each("variant Samples::series()", samples.series(), |s| { if let Ok(s) = s {
            let _ = s.name(h).map(|n| n.len());
            each("variant Series::iter()", s.iter(h), |v| { if let Ok(Some(v)) = v { touch_sample_value(&v); } });
            for i in [0usize, 1, 2, usize::MAX] { let _ = s.get(h, i); }
        } });
        each("variant Samples::iter()", samples.iter(), |s| { each("variant Sample::iter()", s.iter(h), |f| { let _ = f.map(|(k, _)| k.len()); }); });
        let _ = samples.len(); let _ = samples.is_empty();
    }
    let _ = r.variant_span(h); let _ = r.variant_end(h);
    let _ = vcf::variant::RecordBuf::try_from_variant_record(h, r);
}
fn touch_info_value(v: &vcf::variant::record::info::field::Value<'_>) {
    use vcf::variant::record::info::field::{value::Array, Value};
    if let Value::Array(a) = v { match a {
        Array::Integer(x) => each("info array iter", x.iter(), |e| { let _ = e; }), Array::Float(x) => each("info array iter", x.iter(), |e| { let _ = e; }),
        Array::Character(x) => each("info array iter", x.iter(), |e| { let _ = e; }), Array::String(x) => each("info array iter", x.iter(), |e| { let _ = e.map(|o| o.map(|s| s.len())); }),
    } }
}
fn touch_sample_value(v: &vcf::variant::record::samples::series::Value<'_>) {
    use vcf::variant::record::samples::series::{value::Array, Value};
    match v {
        Value::Array(a) => match a {
            Array::Integer(x) => each("sample array iter", x.iter(), |e| { let _ = e; }), Array::Float(x) => each("sample array iter", x.iter(), |e| { let _ = e; }),
            Array::Character(x) => each("sample array iter", x.iter(), |e| { let _ = e; }), Array::String(x) => each("sample array iter", x.iter(), |e| { let _ = e.map(|o| o.map(|s| s.len())); }),
        },
        Value::Genotype(g) => each("Genotype::iter()", g.iter(), |a| { let _ = a; }),
        _ => {}
    }
}
fn run_vcf(x: &[u8]) {
    let mut rd = vcf::io::Reader::new(x);
    let Ok(h) = rd.read_header() else { return; };
    let mut rec = vcf::variant::RecordBuf::default();
    let mut n = 0;
    while let Ok(k) = rd.read_record_buf(&h, &mut rec) { if k == 0 || n > MAX_RECORDS { break; } n += 1; touch_variant(&h, &rec); }
}
fn run_vcf_lazy(x: &[u8]) {
    let mut rd = vcf::io::Reader::new(x);
    let Ok(h) = rd.read_header() else { return; };
    let mut rec = vcf::Record::default();
    let mut n = 0;
    while let Ok(k) = rd.read_record(&mut rec) { if k == 0 || n > MAX_RECORDS { break; } n += 1; touch_variant(&h, &rec); }
}
fn run_bcf(x: &[u8]) {
    let mut rd = bcf::io::Reader::from(x);
    let Ok(h) = rd.read_header() else { return; };
    let mut rec = vcf::variant::RecordBuf::default();
    let mut n = 0;
    while let Ok(k) = rd.read_record_buf(&h, &mut rec) { if k == 0 || n > MAX_RECORDS { break; } n += 1; touch_variant(&h, &rec); }
}
fn run_bcf_lazy(x: &[u8]) {
    let mut rd = bcf::io::Reader::from(x);
    let Ok(h) = rd.read_header() else { return; };
    let mut rec = bcf::Record::default();
    let mut n = 0;
    while let Ok(k) = rd.read_record(&mut rec) { if k == 0 || n > MAX_RECORDS { break; } n += 1; touch_variant(&h, &rec); let _ = rec.end(); }
}
fn run_fasta(x: &[u8]) {
    let mut rd = noodles_fasta::io::Reader::new(x);
    let mut n = 0;
    for r in rd.records() { n += 1; if n > MAX_RECORDS { break; } if let Ok(r) = r { let _ = r.name().len(); let _ = r.sequence().len(); } else { break; } }
    let mut ixr = noodles_fasta::io::Indexer::new(x);
    let mut recs = Vec::new();
    while let Ok(Some(r)) = ixr.index_record() { recs.push(r); if recs.len() > MAX_RECORDS { break; } }
    let index = noodles_fasta::fai::Index::from(recs);
    for region in ["sq0", "sq0:2-5", "sq1:1-100", "sq1:7"] {
        if let Ok(region) = region.parse::<noodles_core::Region>() { let mut rd = noodles_fasta::io::Reader::new(std::io::Cursor::new(x)); let _ = rd.query(&index, &region); }
    }
}
fn run_fastq(x: &[u8]) {
    let mut rd = noodles_fastq::io::Reader::new(x);
    let mut n = 0;
    for r in rd.records() { n += 1; if n > MAX_RECORDS { break; } if let Ok(r) = r { let _ = r.name().len() + r.sequence().len() + r.quality_scores().len(); } else { break; } }
}
fn run_gff(x: &[u8]) {
    let mut rd = noodles_gff::io::Reader::new(x);
    let mut n = 0;
    for l in rd.lines() { n += 1; if n > MAX_RECORDS { break; } match l { Ok(l) => {
        if let Some(Ok(r)) = l.as_record() {
            let _ = r.reference_sequence_name().len(); let _ = r.source().len(); let _ = r.ty().len(); let _ = r.start(); let _ = r.end(); let _ = r.score(); let _ = r.strand(); let _ = r.phase();
            each("gff Attributes::iter()", r.attributes().iter(), |a| { if let Ok((_, v)) = a { match v {
                noodles_gff::record::attributes::field::Value::String(s) => { let _ = s.len(); }
                noodles_gff::record::attributes::field::Value::Array(a) => each("gff attribute Array::iter()", a.iter(), |e| { let _ = e.len(); }) } } });
            let _ = noodles_gff::feature::RecordBuf::try_from_feature_record(&r);
        }
        if let Some(d) = l.as_directive() { let _ = d.key().len(); let _ = d.value().map(|v| v.len()); }
        let _ = l.as_comment().map(|c| c.len());
    } Err(_) => break } }
}
fn run_gtf(x: &[u8]) {
    let mut rd = noodles_gtf::io::Reader::new(x);
    let mut n = 0;
    for l in rd.lines() { n += 1; if n > MAX_RECORDS { break; } match l { Ok(l) => {
        if let Some(Ok(r)) = l.as_record() {
            let _ = r.reference_sequence_name().len(); let _ = r.source().len(); let _ = r.ty().len(); let _ = r.start(); let _ = r.end(); let _ = r.score(); let _ = r.strand(); let _ = r.phase();
            if let Ok(attrs) = r.attributes() { each("gtf Attributes::iter()", attrs.iter(), |a| { if let Ok((_, v)) = a { each("gtf attribute Value::iter()", v.iter(), |e| { let _ = e.len(); }); } }); }
        }
    } Err(_) => break } }
}
fn run_bed(x: &[u8]) {
    let mut rd = noodles_bed::io::Reader::<3, _>::new(x);
    let mut rec = noodles_bed::Record::<3>::default();
    let mut n = 0;
    while let Ok(k) = rd.read_record(&mut rec) { if k == 0 || n > MAX_RECORDS { break; } n += 1;
        let _ = rec.reference_sequence_name().len(); let _ = rec.feature_start(); let _ = rec.feature_end();
        each("bed OtherFields::iter()", rec.other_fields().iter(), |f| { let _ = f.len(); });
       
    }
}
fn query_index<I: noodles_csi::BinningIndex>(index: &I) {
    for (id, region) in [(0usize, "sq0:1-100"), (0, "sq0:19000-30000"), (1, "sq1"), (7, "sq0:5")] {
        if let Ok(region) = region.parse::<noodles_core::Region>() { let _ = index.query(id, region.interval()); }
    }
    let _ = index.last_first_record_start_position(); let _ = index.unplaced_unmapped_record_count(); let _ = index.min_shift(); let _ = index.depth();
    let _ = index.header().map(|h| h.reference_sequence_names().len());
    each("index reference_sequences()", index.reference_sequences(), |rs| { let _ = rs.metadata().map(|m| m.mapped_record_count()); });
}
fn run_bai(x: &[u8]) { if let Ok(index) = bam::bai::io::Reader::new(x).read_index() { query_index(&index); } }
fn run_csi(x: &[u8]) { let z = deflate_all(x); if let Ok(index) = noodles_csi::io::Reader::new(&z[..]).read_index() { query_index(&index); } }
fn run_tabix(x: &[u8]) { let z = deflate_all(x); if let Ok(index) = noodles_tabix::io::Reader::new(&z[..]).read_index() { query_index(&index); } }
fn run_gzi(x: &[u8]) { if let Ok(index) = noodles_bgzf::gzi::io::Reader::new(x).read_index() { for p in [0u64, 1, 21294, 21295, 90000, u64::MAX] { let _ = index.query(p); } } }
fn run_fai(x: &[u8]) {
    if let Ok(index) = noodles_fasta::fai::io::Reader::new(x).read_index() {
        for region in ["sq0", "sq0:2-5", "sq1:1-100", "sq1:7", "sq9"] { if let Ok(region) = region.parse::<noodles_core::Region>() { let _ = index.query(&region); } }
    }
}
fn run_bgzf(x: &[u8]) {
    use std::io::{BufRead as _, Read as _};
    let mut v = Vec::new();
    let _ = noodles_bgzf::io::Reader::new(x).read_to_end(&mut v);
    let mut rd = noodles_bgzf::io::Reader::new(std::io::Cursor::new(x));
    for vp in [0u64, 5, 1 << 16, (60u64 << 16) | 3, u64::MAX] { let _ = rd.seek(noodles_bgzf::VirtualPosition::from(vp)); let _ = rd.fill_buf().map(|b| b.len()); let mut b = [0u8; 8]; let _ = rd.read(&mut b); }
}
// ---- CRAM with UNCOMPRESSED blocks, and every substitution RE-SEALED: the CRC32 of the container header or of the block that holds the
// substituted byte (by the layout of the unmutated seed) is recomputed, so the corruption reaches the slice / record decoder instead of
// stopping at a checksum.  Truncations are run as they are.
pub(crate) fn cram_raw_seeds() -> Vec<Vec<u8>> {
    // EMBEDDED (f77_seed.hex): a file the CRAM writer produced from SAM_BODY with every block uncompressed.  The writer's output is not byte-stable
    // across processes (hash-map order of the tag dictionary), and the inputs of this target must be the same in every run.
    let hexs = include_str!("f77_seed.hex").trim();
    vec![(0..hexs.len() / 2).map(|i| u8::from_str_radix(&hexs[2 * i..2 * i + 2], 16).unwrap()).collect()]
}
/// how the embedded seed was made (kept so that it can be regenerated: `verif-native bounded-print-cram-raw-seed`)
pub(crate) fn cram_raw_seed_fresh() -> Vec<u8> {
    use sam::alignment::io::Write as _;
    use noodles_cram::container::{block_content_encoder_map::Builder as MapBuilder, compression_header::data_series_encodings::DataSeries as D};
    let standard = [D::BamFlags, D::CramFlags, D::ReferenceSequenceIds, D::ReadLengths, D::AlignmentStarts, D::ReadGroupIds, D::Names, D::MateFlags, D::MateReferenceSequenceIds, D::MateAlignmentStarts, D::TemplateLengths, D::MateDistances, D::TagSetIds, D::FeatureCounts, D::FeatureCodes, D::FeaturePositionDeltas, D::DeletionLengths, D::StretchesOfBases, D::StretchesOfQualityScores, D::BaseSubstitutionCodes, D::InsertionBases, D::ReferenceSkipLengths, D::PaddingLengths, D::HardClipLengths, D::SoftClipBases, D::MappingQualities, D::Bases, D::QualityScores];
    let header = sam_header();
    let mut rd = sam::io::Reader::new(SAM_BODY.as_bytes());
    let mut mb = MapBuilder::default().set_core_data_encoder(None).set_default_encoder(None);
    for ds in standard.iter() { mb = mb.set_data_series_encoder(*ds, None); }
    let mut w = noodles_cram::io::writer::Builder::default().set_reference_sequence_repository(cram_repo()).set_block_content_encoder_map(mb.build()).build_from_writer(Vec::new());
    w.write_header(&header).unwrap();
    for r in rd.record_bufs(&header) { let r = r.unwrap(); w.write_alignment_record(&header, &r).unwrap(); }
    w.try_finish(&header).unwrap();
    w.get_ref().clone()
}
fn crc32(x: &[u8]) -> u32 { let mut c = 0xffff_ffffu32; for &b in x { c ^= b as u32; for _ in 0..8 { c = if c & 1 != 0 { (c >> 1) ^ 0xedb8_8320 } else { c >> 1 }; } } !c }
/// (start, end) of every CRC-protected region of the seed: container headers and blocks; the CRC32 is the 4 bytes at `end`
fn cram_sealed_regions(b: &[u8]) -> Vec<(usize, usize)> {
    let mut out = Vec::new();
    let Some(conts) = crate::truncation::cram_containers(b) else { return out; };
    for (start, hl, len, _) in conts {
        out.push((start, start + hl - 4));
        let (mut p, end) = (start + hl, start + hl + len);
        while p < end { let bs = p; p += 2; if crate::truncation::itf8_pub(b, &mut p).is_none() { break; } let Some(size) = crate::truncation::itf8_val_pub(b, &mut p) else { break; }; if crate::truncation::itf8_pub(b, &mut p).is_none() { break; } p += size as usize; if p + 4 > b.len() { break; } out.push((bs, p)); p += 4; }
    }
    out
}
/// x: a same-length mutation of `seed`; the CRC32 of the sealed region (by the seed's layout) that holds the first differing byte is recomputed
pub(crate) fn cram_reseal(seed: &[u8], regions: &[(usize, usize)], x: &[u8]) -> Vec<u8> {
    let mut y = x.to_vec();
    if x.len() == seed.len() { if let Some(p) = (0..x.len()).find(|&i| x[i] != seed[i]) { if let Some(&(a, e)) = regions.iter().find(|&&(a, e)| a <= p && p < e) { let c = crc32(&y[a..e]); y[e..e + 4].copy_from_slice(&c.to_le_bytes()); } } }
    y
}
pub(crate) fn cram_sealed_regions_pub(b: &[u8]) -> Vec<(usize, usize)> { cram_sealed_regions(b) }
pub(crate) fn run_cram_pub(x: &[u8]) { run_cram(x) }
fn run_cram_resealed(x: &[u8]) {
    static LAYOUT: std::sync::OnceLock<(Vec<u8>, Vec<(usize, usize)>)> = std::sync::OnceLock::new();
    let (seed, regions) = LAYOUT.get_or_init(|| { let s = cram_raw_seeds().remove(0); let r = cram_sealed_regions(&s); (s, r) });
    if x.len() != seed.len() { run_cram(x); return; }
    run_cram(&cram_reseal(seed, regions, x));
}
fn run_cram(x: &[u8]) {
    let dbg = std::env::var_os("VERIF_DEBUG_CRAM").is_some();
    let mut rd = noodles_cram::io::reader::Builder::default().set_reference_sequence_repository(cram_repo()).build_from_reader(x);
    let h = match rd.read_header() { Ok(h) => h, Err(e) => { if dbg { eprintln!("DBG header: {e}"); } return; } };
    let mut n = 0;
    for r in rd.records(&h) { n += 1; if n > MAX_RECORDS { break; } match r { Ok(r) => touch_alignment(&h, &r), Err(e) => { if dbg { eprintln!("DBG record {n}: {e}"); } break } } }
    if dbg { eprintln!("DBG done {n}"); }
}
