//! verif-native — the real noodles crates compiled natively (with `--cfg noodles_verif` hooks).
//! Used for (a) bounded-native stand-ins (never counted as proved), (b) witnesses of findings.
//!   verif-native <name> [--tier quick|thorough] [--seed n]
//! prints `RESULT {json}`; exit 0 ok, 1 violation (with witness), 2 usage/other.
use std::io::Read;

mod witnesses;
mod bounded;

fn main() {
    let args: Vec<String> = std::env::args().collect();
    if args.len() < 2 {
        eprintln!("usage: verif-native <name> [--tier t] [--seed n]");
        std::process::exit(2);
    }
    let name = args[1].as_str();
    let mut tier = "quick".to_string();
    let mut seed = 0u64;
    let mut i = 2;
    while i < args.len() {
        match args[i].as_str() {
            "--tier" => { tier = args[i + 1].clone(); i += 2; }
            "--seed" => { seed = args[i + 1].parse().unwrap_or(0); i += 2; }
            _ => i += 1,
        }
    }
    let _ = (&tier, seed);
    let r = match name {
        n if n.starts_with("child-dec-") => {
            let cur = args.iter().position(|a| a == "--cur").map(|i| args[i + 1].clone()).unwrap_or_else(|| "/dev/null".into());
            let start = args.iter().position(|a| a == "--start").and_then(|i| args[i + 1].parse().ok()).unwrap_or(0usize);
            bounded::decoder_child(&n[10..], &tier, seed, &cur, start); std::process::exit(0)
        }
        n if n.starts_with("child-") => { witnesses::child(&n[6..]); std::process::exit(0) }
        n if n.starts_with("witness-") => witnesses::run(&n[8..]),
        n if n.starts_with("bounded-") => bounded::run(&n[8..], &tier, seed),
        _ => { eprintln!("unknown check {name}"); std::process::exit(2) }
    };
    match r {
        Ok(info) => { println!("RESULT {{\"ok\":true,{info}}}"); }
        Err(w) => {
            if let Some(rest) = w.strip_prefix("FAILURES\n") {
                let list: Vec<String> = rest.lines().map(|l| format!("{:?}", l)).collect();
                println!("RESULT {{\"ok\":false,\"witness\":{:?},\"failures\":[{}]}}", rest.lines().next().unwrap_or(""), list.join(","));
            } else {
                println!("RESULT {{\"ok\":false,\"witness\":{:?}}}", w);
            }
            std::process::exit(1)
        }
    }
}

#[allow(dead_code)]
pub fn read_all<R: Read>(mut r: R) -> std::io::Result<Vec<u8>> { let mut v = Vec::new(); r.read_to_end(&mut v)?; Ok(v) }
