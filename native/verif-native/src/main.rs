//! verif-native — the real noodles crates compiled natively (with `--cfg noodles_verif` hooks).
//! Used for (a) bounded-native stand-ins (never counted as proved), (b) witnesses of findings.
//!   verif-native <name> [--tier quick|thorough] [--seed n]
//! prints `RESULT {json}`; exit 0 ok, 1 violation (with witness), 2 usage/other.
use std::io::Read;

mod witnesses;
mod bounded;
mod hostile;
mod features;
mod truncation;
mod bgzfseek;
mod chunked;
mod sinks;
mod fastaq;

// Allocation cap for the hostile-input child processes: a single allocation request above ALLOC_CAP fails (-> Rust aborts with
// "memory allocation of N bytes failed").  This makes "a few hundred input bytes ask for more than 1 GiB" a deterministic
// outcome that does not depend on the host's memory or address-space limits.  usize::MAX (the default) disables it.
pub static ALLOC_CAP: std::sync::atomic::AtomicUsize = std::sync::atomic::AtomicUsize::new(usize::MAX);
struct CapAlloc;
unsafe impl std::alloc::GlobalAlloc for CapAlloc {
    unsafe fn alloc(&self, l: std::alloc::Layout) -> *mut u8 {
        if l.size() > ALLOC_CAP.load(std::sync::atomic::Ordering::Relaxed) { std::ptr::null_mut() } else { unsafe { std::alloc::System.alloc(l) } }
    }
    unsafe fn alloc_zeroed(&self, l: std::alloc::Layout) -> *mut u8 {
        if l.size() > ALLOC_CAP.load(std::sync::atomic::Ordering::Relaxed) { std::ptr::null_mut() } else { unsafe { std::alloc::System.alloc_zeroed(l) } }
    }
    unsafe fn dealloc(&self, p: *mut u8, l: std::alloc::Layout) { unsafe { std::alloc::System.dealloc(p, l) } }
    unsafe fn realloc(&self, p: *mut u8, l: std::alloc::Layout, n: usize) -> *mut u8 {
        if n > ALLOC_CAP.load(std::sync::atomic::Ordering::Relaxed) { std::ptr::null_mut() } else { unsafe { std::alloc::System.realloc(p, l, n) } }
    }
}
#[global_allocator]
static GLOBAL: CapAlloc = CapAlloc;

fn main() {
    let args: Vec<String> = std::env::args().collect();
    if args.len() < 2 {
        eprintln!("usage: verif-native <name> [--tier t] [--seed n]");
        std::process::exit(2);
    }
    let name = args[1].as_str();
    let mut tier = "quick".to_string();
    let mut seed = 0u64;
    let mut i = 2;
    while i < args.len() {
        match args[i].as_str() {
            "--tier" => { tier = args[i + 1].clone(); i += 2; }
            "--seed" => { seed = args[i + 1].parse().unwrap_or(0); i += 2; }
            _ => i += 1,
        }
    }
    let _ = (&tier, seed);
    let r = match name {
        n if n.starts_with("child-file-") => {
            let cur = args.iter().position(|a| a == "--cur").map(|i| args[i + 1].clone()).unwrap_or_else(|| "/dev/null".into());
            let start = args.iter().position(|a| a == "--start").and_then(|i| args[i + 1].parse().ok()).unwrap_or(0usize);
            ALLOC_CAP.store(1 << 30, std::sync::atomic::Ordering::Relaxed);
            hostile::child(&n[11..], &tier, &cur, start); std::process::exit(0)
        }
        n if n.starts_with("child-dec-") => {
            let cur = args.iter().position(|a| a == "--cur").map(|i| args[i + 1].clone()).unwrap_or_else(|| "/dev/null".into());
            let start = args.iter().position(|a| a == "--start").and_then(|i| args[i + 1].parse().ok()).unwrap_or(0usize);
            ALLOC_CAP.store(1 << 30, std::sync::atomic::Ordering::Relaxed);
            bounded::decoder_child(&n[10..], &tier, seed, &cur, start); std::process::exit(0)
        }
        n if n.starts_with("child-") => { ALLOC_CAP.store(1 << 30, std::sync::atomic::Ordering::Relaxed); witnesses::child(&n[6..]); std::process::exit(0) }
        n if n.starts_with("witness-") => witnesses::run(&n[8..]),
        n if n.starts_with("bounded-") => bounded::run(&n[8..], &tier, seed),
        _ => { eprintln!("unknown check {name}"); std::process::exit(2) }
    };
    match r {
        Ok(info) => { println!("RESULT {{\"ok\":true,{info}}}"); }
        Err(w) => {
            if w.starts_with("UNDECIDED:") { eprintln!("{w}"); std::process::exit(2); }
            if let Some(rest) = w.strip_prefix("FAILURES\n") {
                let list: Vec<String> = rest.lines().map(|l| format!("{:?}", l)).collect();
                println!("RESULT {{\"ok\":false,\"witness\":{:?},\"failures\":[{}]}}", rest.lines().next().unwrap_or(""), list.join(","));
            } else {
                println!("RESULT {{\"ok\":false,\"witness\":{:?}}}", w);
            }
            std::process::exit(1)
        }
    }
}

#[allow(dead_code)]
pub fn read_all<R: Read>(mut r: R) -> std::io::Result<Vec<u8>> { let mut v = Vec::new(); r.read_to_end(&mut v)?; Ok(v) }
