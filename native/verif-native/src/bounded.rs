//! Bounded / sampled stand-ins executed on the real crates.  NEVER counted as proved.
use std::io::{Read, Write};
use noodles_bgzf as bgzf;

pub fn run(id: &str, tier: &str, seed: u64) -> Result<String, String> {
    match id {
        "bgzf-deflate-bound" => bgzf_deflate_bound(tier, seed),
        _ => Err(format!("unknown bounded check {id}")),
    }
}

fn prng(seed: u64, n: usize) -> Vec<u8> {
    let mut x = seed.wrapping_mul(0x9E3779B97F4A7C15) | 1;
    (0..n).map(|_| { x ^= x << 13; x ^= x >> 7; x ^= x << 17; (x >> 24) as u8 }).collect()
}

/// SAMPLED sanity check of the ASSUMED contract of bgzf deflate::encode (+ zlib-rs): for every compression level and for
/// payload sizes around the staging-buffer limit, compressible and incompressible, one staged block is written as ONE
/// member of at most 64 KiB and reads back identically.  (This is what the level-0 fallback exists for.)
fn bgzf_deflate_bound(_tier: &str, seed: u64) -> Result<String, String> {
    let sizes = [0usize, 1, 2, 100, 65280, 65480, 65489, 65490, 65491, 65492, 65493, 65494, 65495];
    let mut cases = 0u64;
    for level in 0u8..=9 {
        for &n in &sizes {
            for kind in 0..2 {
                let data = if kind == 0 { vec![0u8; n] } else { prng(seed.wrapping_add(n as u64 * 31 + level as u64), n) };
                let lvl = bgzf::io::writer::CompressionLevel::new(level).unwrap();
                let mut w = bgzf::io::writer::Builder::default().set_compression_level(lvl).build_from_writer(Vec::new());
                if let Err(e) = w.write_all(&data).and_then(|_| w.flush()) {
                    return Err(format!("level {level}, {n} {} bytes: write/flush failed: {e}", if kind == 0 { "zero" } else { "incompressible" }));
                }
                let out = w.finish().map_err(|e| format!("level {level}, {n} bytes: finish failed: {e}"))?;
                // walk the members: BSIZE + 1 each, <= 65536, and the last one is the 28-byte EOF marker
                let mut off = 0usize; let mut members = 0;
                while off < out.len() {
                    if out.len() - off < 18 { return Err(format!("level {level}, {n} bytes: trailing garbage")); }
                    let bs = u16::from_le_bytes([out[off + 16], out[off + 17]]) as usize + 1;
                    if off + bs > out.len() { return Err(format!("level {level}, {n} bytes: member overruns the file")); }
                    off += bs; members += 1;
                }
                if n > 0 && members != 2 { return Err(format!("level {level}, {n} bytes staged as one block were written as {} members", members - 1)); }
                let mut back = Vec::new();
                bgzf::io::Reader::new(&out[..]).read_to_end(&mut back).map_err(|e| format!("level {level}, {n} bytes: read back failed: {e}"))?;
                if back != data { return Err(format!("level {level}, {n} bytes: read back differs")); }
                cases += 1;
            }
        }
    }
    Ok(format!("\"cases\":{cases}"))
}
