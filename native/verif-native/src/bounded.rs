//! Bounded / sampled stand-ins executed on the real crates.  NEVER counted as proved.
use std::io::{Read, Write};
use noodles_bgzf as bgzf;

pub fn run(id: &str, tier: &str, seed: u64) -> Result<String, String> {
    match id {
        "bgzf-deflate-bound" => bgzf_deflate_bound(tier, seed),
        n if n.starts_with("try-") => codec_try(&n[4..]),
        "cram-codecs-roundtrip" => cram_codecs_roundtrip(tier, seed, None),
        "bcf-roundtrip" => bcf_roundtrip(tier),
        "bam-roundtrip" => bam_roundtrip(tier),
        "cram-roundtrip" => cram_roundtrip(tier),
        "index-query" => index_query(tier),
        "util-conversions" => util_conversions(tier),
        "feature-roundtrip" => crate::features::feature_roundtrip(tier),
        "truncation" => crate::truncation::truncation(tier),
        "bgzf-seek-read" => crate::bgzfseek::bgzf_seek_read(tier),
        "chunked-readers" => crate::chunked::chunked_readers(tier),
        "writer-sinks" => crate::sinks::writer_sinks(tier),
        "fasta-index-query" => crate::fastaq::fasta_index_query(tier),
        "cram-decoders-hostile" => cram_decoders_hostile(tier, seed),
        n if n.starts_with("file-") && n.contains(':') => { let (t, h) = n[5..].split_once(':').unwrap(); let x: Vec<u8> = (0..h.len() / 2).map(|i| u8::from_str_radix(&h[2 * i..2 * i + 2], 16).unwrap()).collect(); let ts = crate::hostile::targets(); let t = ts.iter().find(|k| k.name == t).ok_or("unknown target")?; (t.run)(&x); Ok("\"ran\":1".into()) }
        "print-cram-raw-seed" => { let x = crate::hostile::cram_raw_seed_fresh(); println!("{}", x.iter().map(|b| format!("{b:02x}")).collect::<String>()); Ok("\"cases\":1".into()) }
        "file-mutations" => crate::hostile::parent(tier, None),
        n if n.starts_with("file-mutations-") => crate::hostile::parent(tier, Some(&n[15..])),
        n if n.starts_with("dec-") => { let (d, h) = n[4..].split_once(':').ok_or("dec-<decoder>:<hex>")?; let x: Vec<u8> = (0..h.len() / 2).map(|i| u8::from_str_radix(&h[2 * i..2 * i + 2], 16).unwrap()).collect(); let r = run_decoder(d, &x); Ok(format!("\"result\":{:?}", r.map(|v| v.len()).map_err(|e| e.to_string()))) }
        n if n.starts_with("cram-codec-") => cram_codecs_roundtrip(tier, seed, Some(&n[11..])),
        _ => Err(format!("unknown bounded check {id}")),
    }
}

fn prng(seed: u64, n: usize) -> Vec<u8> {
    let mut x = seed.wrapping_mul(0x9E3779B97F4A7C15) | 1;
    (0..n).map(|_| { x ^= x << 13; x ^= x >> 7; x ^= x << 17; (x >> 24) as u8 }).collect()
}

/// SAMPLED sanity check of the ASSUMED contract of bgzf deflate::encode (+ zlib-rs): for every compression level and for
/// payload sizes around the staging-buffer limit, compressible and incompressible, one staged block is written as ONE
/// member of at most 64 KiB and reads back identically.  (This is what the level-0 fallback exists for.)
fn bgzf_deflate_bound(_tier: &str, seed: u64) -> Result<String, String> {
    let sizes = [0usize, 1, 2, 100, 65280, 65480, 65489, 65490, 65491, 65492, 65493, 65494, 65495];
    let mut cases = 0u64;
    for level in 0u8..=9 {
        for &n in &sizes {
            for kind in 0..2 {
                let data = if kind == 0 { vec![0u8; n] } else { prng(seed.wrapping_add(n as u64 * 31 + level as u64), n) };
                let lvl = bgzf::io::writer::CompressionLevel::new(level).unwrap();
                let mut w = bgzf::io::writer::Builder::default().set_compression_level(lvl).build_from_writer(Vec::new());
                if let Err(e) = w.write_all(&data).and_then(|_| w.flush()) {
                    return Err(format!("level {level}, {n} {} bytes: write/flush failed: {e}", if kind == 0 { "zero" } else { "incompressible" }));
                }
                let out = w.finish().map_err(|e| format!("level {level}, {n} bytes: finish failed: {e}"))?;
                // walk the members: BSIZE + 1 each, <= 65536, and the last one is the 28-byte EOF marker
                let mut off = 0usize; let mut members = 0;
                while off < out.len() {
                    if out.len() - off < 18 { return Err(format!("level {level}, {n} bytes: trailing garbage")); }
                    let bs = u16::from_le_bytes([out[off + 16], out[off + 17]]) as usize + 1;
                    if off + bs > out.len() { return Err(format!("level {level}, {n} bytes: member overruns the file")); }
                    off += bs; members += 1;
                }
                if n > 0 && members != 2 { return Err(format!("level {level}, {n} bytes staged as one block were written as {} members", members - 1)); }
                let mut back = Vec::new();
                bgzf::io::Reader::new(&out[..]).read_to_end(&mut back).map_err(|e| format!("level {level}, {n} bytes: read back failed: {e}"))?;
                if back != data { return Err(format!("level {level}, {n} bytes: read back differs")); }
                cases += 1;
            }
        }
    }
    Ok(format!("\"cases\":{cases}"))
}

/// BOUNDED-NATIVE stand-in for C08 (block codecs are out of reach of Verus/Kani here): decode(encode(x)) == x on the real
/// functions for small alphabets/lengths (exhaustive up to a bound) plus seeded pseudo-random inputs.  Never counted as proved.
/// ALL failures are collected and de-duplicated by (codec variant, kind of failure), keeping the shortest input of each kind,
/// so that every distinct kind is reported (and can be matched against known_findings.jsonl one by one).
fn cram_codecs_roundtrip(tier: &str, seed: u64, only: Option<&str>) -> Result<String, String> {
    use noodles_cram::codecs::{rans_4x8, rans_nx16, aac};
    use std::collections::BTreeMap;
    let mut cases = 0u64;
    let mut inputs: Vec<Vec<u8>> = Vec::new();
    for len in 0..=5usize { let n = 3usize.pow(len as u32); for mut k in 0..n { let mut v = Vec::with_capacity(len); for _ in 0..len { v.push((k % 3) as u8); k /= 3; } inputs.push(v); } }
    for &(lo, hi, n) in &[(1u8, 9u8, 40usize), (0, 3, 200), (30, 41, 600), (0, 255, 300), (65, 68, 5000), (1, 1, 17), (200, 255, 1000), (0, 254, 400)] {
        let r = prng(0x5eed ^ ((lo as u64) << 8 | hi as u64), n);   // fixed: the quick inputs do not depend on VERIF_SEED
        inputs.push(r.iter().map(|b| (lo as u16 + (*b as u16) % (hi as u16 - lo as u16 + 1)) as u8).collect());
    }
    inputs.push(vec![1, 5, 9, 1, 5, 9, 9, 9, 5, 1]);
    inputs.push(b"noodles".to_vec());
    if tier == "thorough" { for i in 0..200u64 { let n = 1 + (i as usize * 37) % 3000; let r = prng(seed.wrapping_add(i), n); let m = 1 + (i % 40) as u8; inputs.push(r.iter().map(|b| b % m).collect()); } }
    inputs.sort_by_key(|v| v.len());
    let want = |name: &str| only.map_or(true, |o| o == name);
    let mut fails: BTreeMap<(String, String), String> = BTreeMap::new();
    let mut note = |variant: &str, kind: String, x: &[u8]| {
        fails.entry((variant.to_string(), kind.clone())).or_insert_with(|| format!("{variant}: {kind}; shortest failing input: {} bytes {:?}{}", x.len(), x.iter().take(64).collect::<Vec<_>>(), if x.len() > 64 { "..." } else { "" }));
    };
    std::panic::set_hook(Box::new(|_| {}));
    for x in &inputs {
        let n = x.len();
        let mut run = |variant: &str, enc: &dyn Fn() -> std::io::Result<Vec<u8>>, dec: &dyn Fn(&[u8]) -> std::io::Result<Vec<u8>>| {
            if !want(variant) { return; }
            cases += 1;
            let e = match std::panic::catch_unwind(std::panic::AssertUnwindSafe(|| enc())) {
                Ok(Ok(e)) => e,
                Ok(Err(_)) => { return; }   // an explicit refusal produces no encoding: not a round-trip failure
                Err(_) => { note(variant, "encode PANICS".to_string(), x); return; }
            };
            match std::panic::catch_unwind(std::panic::AssertUnwindSafe(|| dec(&e))) {
                Ok(Ok(y)) if &y == x => {}
                Ok(Ok(_)) => note(variant, "decode(encode(x)) != x".to_string(), x),
                Ok(Err(e)) => note(variant, format!("decode of its own encoding returns Err('{e}')"), x),
                Err(_) => note(variant, "decode of its own encoding PANICS".to_string(), x),
            }
        };
        run("rans4x8-o0", &|| rans_4x8::verif_hooks::encode(rans_4x8::Order::Zero, x), &|e| rans_4x8::verif_hooks::decode(e));
        run("rans4x8-o1", &|| rans_4x8::verif_hooks::encode(rans_4x8::Order::One, x), &|e| rans_4x8::verif_hooks::decode(e));
        for (nm, fl) in [("ransnx16-o0", rans_nx16::Flags::empty()), ("ransnx16-o1", rans_nx16::Flags::ORDER), ("ransnx16-n32", rans_nx16::Flags::N32), ("ransnx16-rle", rans_nx16::Flags::RLE), ("ransnx16-pack", rans_nx16::Flags::PACK), ("ransnx16-cat", rans_nx16::Flags::CAT), ("ransnx16-stripe", rans_nx16::Flags::STRIPE)] {
            run(nm, &|| rans_nx16::verif_hooks::encode(fl, x), &|e| rans_nx16::verif_hooks::decode(e, n));
        }
        for (nm, fl) in [("aac-o0", aac::Flags::empty()), ("aac-o1", aac::Flags::ORDER), ("aac-rle", aac::Flags::RLE), ("aac-pack", aac::Flags::PACK)] {
            run(nm, &|| aac::verif_hooks::encode(fl, x), &|e| aac::verif_hooks::decode(e, n));
        }
    }
    // ---- fqzcomp: quality strings cut into records of given lengths (equal, single, unequal with equal first and last, ragged) ----
    {
        use noodles_cram::codecs::verif_hooks as vh;
        let mut fq = |what: &str, lens: Vec<usize>, q: Vec<u8>| {
            if !want("fqzcomp") || lens.iter().any(|&l| l == 0) /* zero-length records: known F31 family, not a round-trip statement */ { return; }
            cases += 1;
            let (l2, q2) = (lens.clone(), q.clone());
            let e = match std::panic::catch_unwind(move || vh::fqzcomp_encode(&l2, &q2)) { Ok(Ok(e)) => e, Ok(Err(_)) => return, Err(_) => { note("fqzcomp", format!("encode PANICS ({what})"), &q); return; } };
            match std::panic::catch_unwind(move || vh::fqzcomp_decode(&e)) {
                Ok(Ok(y)) if y == q => {}
                Ok(Ok(_)) => note("fqzcomp", format!("decode(encode(x)) != x ({what}; record lengths {:?})", &lens[..lens.len().min(8)]), &q),
                Ok(Err(e)) => note("fqzcomp", format!("decode of its own encoding returns Err('{e}') ({what})"), &q),
                Err(_) => note("fqzcomp", format!("decode of its own encoding PANICS ({what})"), &q),
            }
        };
        let qual = |n: usize, salt: u64| -> Vec<u8> { prng(0xf9 ^ salt, n).iter().enumerate().map(|(i, b)| 33 + if i % 13 == 0 { 2 } else { 20 + b % 21 }).collect() };
        for (k, lens) in [vec![1usize], vec![4], vec![10, 10, 10], vec![10, 5, 10], vec![10, 10, 5], vec![5, 10, 10], vec![151, 151, 97, 151, 33, 120, 151], vec![100; 40], (1..=60).collect::<Vec<_>>(), (0..200).map(|i| 30 + (i * 7) % 23).collect::<Vec<_>>(), vec![36, 36, 36, 1, 36]].into_iter().enumerate() {
            let n: usize = lens.iter().sum();
            fq(if lens.windows(2).all(|w| w[0] == w[1]) { "records of equal length" } else if lens.first() == lens.last() { "records of unequal length, the first and the last equal" } else { "records of unequal length" }, lens, qual(n, k as u64));
        }
        // ---- name tokenizer: name lists with padded / unpadded numbers, duplicates, changing token counts ----
        let name_sets: Vec<(&str, Vec<String>)> = vec![
            ("fixed-width counters", (0..300).map(|i| format!("read.{:05}/{}", i / 2, 1 + i % 2)).collect()),
            ("unpadded counters", (0..300).map(|i| format!("r{}", i * 3)).collect()),
            ("a zero-padded number followed by a shorter, larger one", vec!["run7:lane1:08".into(), "run7:lane1:9".into(), "x:003:a".into(), "x:4:a".into(), "s_08".into(), "s_009".into()]),
            ("duplicates followed by a name sharing tokens", vec!["read:1:0007".into(), "read:2:0008".into(), "read:2:0008".into(), "read:3:0009".into(), "read:3:0009".into(), "read:3:0010".into()]),
            ("changing token counts", vec!["a".into(), "a.b".into(), "a.b.c.1".into(), "a".into(), "7".into(), "007".into(), "a:b:c:d:e:f:g:h:1:2:3".into(), "a:b".into()]),
            ("illumina style", (0..400).map(|i| format!("A00111:{}:HXXXXXXX:{}:{}:{}:{} {}:N:0:ACGT", 60 + i / 200, 1 + i / 100 % 4, 1101 + i / 10, 1000 + (i * 37) % 30000, 1000 + (i * 91) % 30000, 1 + i % 2)).collect()),
        ];
        for (what, names) in name_sets {
            if !want("tok3") { continue; }
            cases += 1;
            let mut src = Vec::new(); for n in &names { src.extend_from_slice(n.as_bytes()); src.push(0); }
            let s2 = src.clone();
            let e = match std::panic::catch_unwind(move || vh::name_tokenizer_encode(&s2)) { Ok(Ok(e)) => e, Ok(Err(_)) => continue, Err(_) => { note("tok3", format!("encode PANICS ({what})"), &src); continue; } };
            match std::panic::catch_unwind(move || vh::name_tokenizer_decode(&e)) {
                Ok(Ok(y)) if y == src => {}
                Ok(Ok(y)) => { let got: Vec<&[u8]> = y.split(|&b| b == 0).collect(); let i = names.iter().zip(got.iter()).position(|(a, b)| a.as_bytes() != *b); note("tok3", format!("decode(encode(names)) != names ({what}; first difference at name {:?}: {:?} -> {:?})", i, i.map(|i| names[i].clone()), i.and_then(|i| got.get(i).map(|g| String::from_utf8_lossy(g).to_string()))), &src) }
                Ok(Err(e)) => note("tok3", format!("decode of its own encoding returns Err('{e}') ({what})"), &src),
                Err(_) => note("tok3", format!("decode of its own encoding PANICS ({what})"), &src),
            }
        }
    }
    let _ = std::panic::take_hook();
    if fails.is_empty() { Ok(format!("\"cases\":{cases}")) }
    else { Err(format!("FAILURES\n{}", fails.values().cloned().collect::<Vec<_>>().join("\n"))) }
}
fn head(x: &[u8]) -> Vec<u8> { x.iter().take(24).copied().collect() }

/// debug helper: bounded-try-<variant>:<comma separated bytes or lo-hi ranges>
fn codec_try(arg: &str) -> Result<String, String> {
    use noodles_cram::codecs::{rans_4x8, rans_nx16};
    let (variant, data) = arg.split_once(':').ok_or("variant:bytes")?;
    let mut x: Vec<u8> = Vec::new();
    for tok in data.split(',') { if let Some((a, b)) = tok.split_once('-') { let (a, b): (u16, u16) = (a.parse().unwrap(), b.parse().unwrap()); for v in a..=b { x.push(v as u8); } } else if !tok.is_empty() { x.push(tok.parse().unwrap()); } }
    let n = x.len();
    let (e, d) = match variant {
        "rans4x8-o0" => { let e = rans_4x8::verif_hooks::encode(rans_4x8::Order::Zero, &x).map_err(|e| e.to_string())?; let d = rans_4x8::verif_hooks::decode(&e); (e, d) }
        "ransnx16-o1" => { let e = rans_nx16::verif_hooks::encode(rans_nx16::Flags::ORDER, &x).map_err(|e| e.to_string())?; let d = rans_nx16::verif_hooks::decode(&e, n); (e, d) }
        _ => return Err("variant".into()),
    };
    match d { Ok(y) if y == x => Ok(format!("\"cases\":1,\"enc_len\":{}", e.len())), Ok(_) => Err("mismatch".into()), Err(er) => Err(format!("decode error {er}; encoding = {:?}", &e[..e.len().min(80)])) }
}

// ---------------------------------------------------------------------------------------------------------------------
// C15, "arbitrary bytes fed to each CRAM codec decoder": SAMPLED (never counted as proved).  Each decoder runs in a child
// process whose allocator refuses any single request above 1 GiB (deterministic; see main.rs), with a per-input hang watchdog; inputs are its own encodings of a few payloads with
// every single-byte substitution from a small set, every truncation, and PRNG strings.  A panic, an abort (allocation
// failure), or a case that does not finish is a failure; Ok or Err is fine.
pub const HANG_S: u64 = 30;
pub const DECODERS: [&str; 6] = ["rans4x8", "ransnx16", "aac", "tok3", "fqzcomp", "ransnx16-len0"];
pub fn hex(x: &[u8]) -> String { x.iter().map(|b| format!("{b:02x}")).collect() }
fn decoder_seeds(dec: &str) -> Vec<Vec<u8>> {
    use noodles_cram::codecs::{rans_4x8, rans_nx16, aac, verif_hooks as vh};
    let payloads: Vec<Vec<u8>> = vec![b"".to_vec(), b"a".to_vec(), b"abracadabra".to_vec(), vec![7u8; 40], (0..=255u8).collect(), prng(11, 300).iter().map(|b| b % 5).collect()];
    let mut v = Vec::new();
    match dec {
        "rans4x8" => for p in &payloads { for o in [rans_4x8::Order::Zero, rans_4x8::Order::One] { if let Ok(e) = rans_4x8::verif_hooks::encode(o, p) { v.push(e); } } },
        "ransnx16" | "ransnx16-len0" => for p in &payloads { for fl in [rans_nx16::Flags::empty(), rans_nx16::Flags::ORDER, rans_nx16::Flags::N32, rans_nx16::Flags::RLE, rans_nx16::Flags::PACK, rans_nx16::Flags::CAT, rans_nx16::Flags::STRIPE] {
            if let Ok(Ok(e)) = std::panic::catch_unwind(|| rans_nx16::verif_hooks::encode(fl, p)) { v.push(e); } } },
        "aac" => for p in &payloads { for fl in [aac::Flags::empty(), aac::Flags::ORDER, aac::Flags::RLE, aac::Flags::PACK, aac::Flags::CAT, aac::Flags::STRIPE] {
            if let Ok(Ok(e)) = std::panic::catch_unwind(|| aac::verif_hooks::encode(fl, p)) { v.push(e); } } },
        "tok3" => for names in [&b"r1\0r2\0r3\0"[..], &b"read.0001/1\0read.0001/2\0read.0002/1\0"[..], &b"a\0"[..], &b"\0"[..], &b"x9\0x10\0x010\0"[..]] {
            if let Ok(Ok(e)) = std::panic::catch_unwind(|| vh::name_tokenizer_encode(names)) { v.push(e); } },
        "fqzcomp" => for (lens, q) in [(vec![4usize], b"IIII".to_vec()), (vec![3, 3], b"ABCABC".to_vec()), (vec![10], vec![b'5'; 10]), (vec![1], b"!".to_vec())] {
            if let Ok(Ok(e)) = std::panic::catch_unwind(move || vh::fqzcomp_encode(&lens, &q)) { v.push(e); } },
        _ => {}
    }
    v
}
fn decoder_inputs(dec: &str, tier: &str, seed: u64) -> Vec<Vec<u8>> {
    let mut v: Vec<Vec<u8>> = vec![vec![]];
    for b in 0..=255u8 { v.push(vec![b]); }
    let per = if tier == "thorough" { 400 } else { 60 };
    for s in decoder_seeds(dec) {
        v.push(s.clone());
        for k in 0..s.len() { v.push(s[..k].to_vec()); }
        let n = s.len().min(per);
        for i in 0..n { for f in [0x00u8, 0xff, s[i] ^ 0x01, s[i] ^ 0x80, s[i].wrapping_add(1), 0x7f] { if f != s[i] { let mut m = s.clone(); m[i] = f; v.push(m); } } }
    }
    let r = if tier == "thorough" { 3000 } else { 300 };
    let _ = seed;   // inputs are a fixed function of the tier: what is found on the unchanged tree is reproducible and listed in known_findings.jsonl
    for i in 0..r { v.push(prng(0xd0d0 + i as u64, 1 + (i * 7) % 120)); }
    v
}
fn run_decoder(dec: &str, x: &[u8]) -> std::io::Result<Vec<u8>> {
    use noodles_cram::codecs::{rans_4x8, rans_nx16, aac, verif_hooks as vh};
    match dec {
        "rans4x8" => rans_4x8::verif_hooks::decode(x),
        "ransnx16" => rans_nx16::verif_hooks::decode(x, 64),
        "ransnx16-len0" => rans_nx16::verif_hooks::decode(x, 0),
        "aac" => aac::verif_hooks::decode(x, 64),
        "tok3" => vh::name_tokenizer_decode(x),
        "fqzcomp" => vh::fqzcomp_decode(x),
        _ => Ok(Vec::new()),
    }
}
/// child side: prints `FAIL <kind>\t<hex>` per failing case and `DONE <cases>` at the end; the case being run is kept in <cur_path>
pub fn decoder_child(dec: &str, tier: &str, seed: u64, cur_path: &str, start: usize) {
    static LOC: std::sync::Mutex<String> = std::sync::Mutex::new(String::new());
    std::panic::set_hook(Box::new(|info| { if let Some(l) = info.location() { *LOC.lock().unwrap() = format!("{}:{}", l.file().rsplit("noodles-cram/src/").next().unwrap_or(l.file()), l.line()); } }));
    let inputs = decoder_inputs(dec, tier, seed);
    let mut n = 0u64;
    // watchdog: one input that produces no result within HANG_S seconds is a hang (exit code 3; the parent carries on after it).
    // Slowness below that is NOT a failure: wall-clock jitter must never turn into an alarm.
    static CASE_START: std::sync::atomic::AtomicU64 = std::sync::atomic::AtomicU64::new(0);
    let t0 = std::time::Instant::now();
    std::thread::spawn(move || loop {
        std::thread::sleep(std::time::Duration::from_secs(1));
        let st = CASE_START.load(std::sync::atomic::Ordering::Relaxed);
        if st != 0 && t0.elapsed().as_secs() > st + HANG_S { std::process::exit(3); }
    });
    for (idx, x) in inputs.iter().enumerate().skip(start) {
        let _ = std::fs::write(cur_path, format!("{idx} {}", hex(x)));
        CASE_START.store(t0.elapsed().as_secs().max(1), std::sync::atomic::Ordering::Relaxed);
        let r = std::panic::catch_unwind(|| run_decoder(dec, x).map(|v| v.len()));
        n += 1;
        if r.is_err() { println!("FAIL PANICS at {}\t{}", LOC.lock().unwrap(), hex(x)); }
    }
    CASE_START.store(0, std::sync::atomic::Ordering::Relaxed);
    println!("DONE {n}");
}
fn cram_decoders_hostile(tier: &str, _seed: u64) -> Result<String, String> {
    run_children(&DECODERS, "child-dec-", tier, "cram codec decoders")
}
/// Runs `<exe> <prefix><name>` for every name in a child process (allocation cap + hang watchdog inside the child), restarting after
/// an input that kills the child, and groups the failures by kind (panic site / abort / hang).
pub fn run_children(names: &[&str], prefix: &str, tier: &str, label: &str) -> Result<String, String> {
    use std::collections::BTreeMap;
    let exe = std::env::current_exe().map_err(|e| e.to_string())?;
    let mut cases = 0u64;
    let mut big_requests = 0u64;
    // failure kind -> (entry points that reach it, shortest (entry point, input))
    let mut fails: BTreeMap<String, (std::collections::BTreeSet<String>, String, String)> = BTreeMap::new();
    for dec in names {
        let cur = std::env::temp_dir().join(format!("verif-native-cur-{}-{}", std::process::id(), dec));
        let limit = if tier == "thorough" { 3000 } else { 1500 };
        let mut start = 0usize;
        let mut restarts = 0;
        loop {
            let out = std::process::Command::new("sh").arg("-c")
                .arg(format!("ulimit -v 33554432; exec timeout {limit} {} {prefix}{dec} --tier {tier} --cur {} --start {start}", exe.display(), cur.display()))
                .output().map_err(|e| e.to_string())?;
            let text = String::from_utf8_lossy(&out.stdout).to_string();
            let mut done = false;
            let mut note = |kind: String, h: &str| {
                let kind = match kind.find("library/core/") { Some(i) => format!("PANICS at {}", &kind[i..]), None => kind };
                let e = fails.entry(kind).or_insert_with(|| (Default::default(), dec.to_string(), h.to_string()));
                e.0.insert(dec.to_string());
                if h.len() < e.2.len() { e.1 = dec.to_string(); e.2 = h.to_string(); }
            };
            for l in text.lines() {
                if let Some(r) = l.strip_prefix("FAIL ") { if let Some((k, h)) = r.split_once('\t') { note(k.to_string(), h); } }
                else if let Some(r) = l.strip_prefix("DONE ") { done = true; cases += r.trim().parse::<u64>().unwrap_or(0); }
            }
            if done { break; }
            // the child died on one input: record it and carry on after it
            let c = std::fs::read_to_string(&cur).unwrap_or_default();
            let (idx, h) = c.split_once(' ').unwrap_or(("", ""));
            if out.status.code() == Some(124) { return Err(format!("UNDECIDED: {dec} did not finish its inputs within {limit} s of wall clock")); }
            // the child's allocator refuses single requests above 1 GiB (main.rs); Rust then prints the size and aborts.
            // A request up to 5 GiB (a 32-bit length field taken at face value) is only COUNTED — a host with enough memory serves
            // it; a larger one (a count multiplied by an element size) is a failure: no common host can serve it.
            let err = String::from_utf8_lossy(&out.stderr).to_string();
            let req = err.lines().rev().find_map(|l| l.strip_prefix("memory allocation of ").and_then(|r| r.split(' ').next()).and_then(|n| n.parse::<u64>().ok()));
            let kind = match (out.status.code(), req) {
                (Some(3), _) => Some(format!("HANGS in {dec} (no result within {HANG_S} s)")),
                (Some(c), _) => Some(format!("process exits with code {c} in {dec}")),
                (None, Some(n)) if n <= 5 << 30 => { big_requests += 1; None }
                (None, Some(_)) => Some(format!("ABORTS the process in {dec} (a single allocation request above 5 GiB)")),
                (None, None) => Some(format!("ABORTS the process in {dec} (signal)")),
            };
            if let Some(kind) = kind { note(kind, h); }
            restarts += 1;
            match idx.parse::<usize>() { Ok(k) if restarts < 2000 => { cases += (k + 1 - start) as u64; start = k + 1; } _ => break }
        }
        let _ = std::fs::remove_file(&cur);
    }
    if fails.is_empty() { Ok(format!("\"cases\":{cases},\"inputs_requesting_1_to_5_GiB_at_once\":{big_requests}")) }
    else { Err(format!("FAILURES\n{}", fails.iter().map(|(k, (ds, d, h))| format!("{label}: {k} on arbitrary bytes; reached through {}; shortest such input found: {d} {} bytes {}", ds.iter().cloned().collect::<Vec<_>>().join(","), h.len() / 2, if h.len() > 1600 { format!("{}...", &h[..1600]) } else { h.clone() })).collect::<Vec<_>>().join("\n"))) }
}

// ---------------------------------------------------------------------------------------------------------------------
// C10 BOUNDED-NATIVE stand-in for what no contract reaches (vectors, per-sample matrices, genotypes, string-map indices):
// VCF text -> RecordBuf -> bcf::io::Writer -> bcf::io::Reader -> RecordBuf -> VCF text must be the identity on a
// systematically enumerated family of records built from the property's own boundary values; a writer refusal (Err) is
// fine, a different record or a reader error on the writer's output is a failure.  Never counted as proved.
fn bcf_roundtrip(tier: &str) -> Result<String, String> {
    use noodles_vcf as vcf;
    use vcf::variant::io::Write as _;
    use std::collections::BTreeMap;
    let mut hdr = String::from("##fileformat=VCFv4.3\n##INFO=<ID=I1,Number=1,Type=Integer,Description=\"x\">\n##INFO=<ID=IA,Number=.,Type=Integer,Description=\"x\">\n##INFO=<ID=F1,Number=1,Type=Float,Description=\"x\">\n##INFO=<ID=FA,Number=.,Type=Float,Description=\"x\">\n##INFO=<ID=S1,Number=1,Type=String,Description=\"x\">\n##INFO=<ID=FL,Number=0,Type=Flag,Description=\"x\">\n##FILTER=<ID=PASS,Description=\"All filters passed\">\n");
    for i in 0..300 { hdr.push_str(&format!("##FILTER=<ID=q{i},Description=\"x\">\n")); }
    hdr.push_str("##FORMAT=<ID=GT,Number=1,Type=String,Description=\"x\">\n##FORMAT=<ID=XI,Number=1,Type=Integer,Description=\"x\">\n##FORMAT=<ID=XA,Number=.,Type=Integer,Description=\"x\">\n##FORMAT=<ID=XF,Number=.,Type=Float,Description=\"x\">\n##FORMAT=<ID=XS,Number=1,Type=String,Description=\"x\">\n##contig=<ID=sq0,length=100000>\n#CHROM\tPOS\tID\tREF\tALT\tQUAL\tFILTER\tINFO\tFORMAT\ts0\ts1\ts2\n");
    let ints: Vec<i64> = vec![-2147483641, -2147483640, -2147483639, -32769, -32768, -32761, -32760, -32759, -129, -128, -127, -121, -120, -119, -1, 0, 1, 126, 127, 128, 32766, 32767, 32768, 2147483646, 2147483647];
    let mut lines: Vec<(String, String)> = Vec::new();   // (kind, record line)
    let alt = (0..130).map(|i| if i % 2 == 0 { "C".repeat(1 + i / 2) } else { "G".repeat(1 + i / 2) }).collect::<Vec<_>>().join(",");
    let rec = |filter: &str, info: &str, fmt: &str, s: [&str; 3]| format!("sq0\t10\t.\tA\t{alt}\t.\t{filter}\t{info}\t{fmt}\t{}\t{}\t{}\n", s[0], s[1], s[2]);
    for &a in &ints { lines.push(("info-int".into(), rec(".", &format!("I1={a}"), "XI", ["1", "2", "3"]))); }
    for &a in &ints { for &b in &ints { if tier == "thorough" || (a + b) % 3 == 0 { lines.push(("info-int-array".into(), rec(".", &format!("IA={a},.,{b}"), "XI", ["1", "2", "3"]))); } } }
    for &a in &ints { for &b in &[-120i64, 0, 127, 32767] { lines.push(("format-int".into(), rec(".", ".", "XI", [&a.to_string(), ".", &b.to_string()]))); } }
    for &a in &ints { lines.push(("format-int-array".into(), rec(".", ".", "XA", [&format!("{a},1,2"), "4", "."]))); lines.push(("format-int-array".into(), rec(".", ".", "XA", [".", &format!("1,{a}"), "5,6,7,.,8"]))); }
    for &a in &ints { lines.push(("format-int-array".into(), rec(".", ".", "XA", [&format!(".,{a}"), "1", &format!(".,.,{a},.")]))); lines.push(("info-int-array".into(), rec(".", &format!("IA=.,{a}"), "XI", ["1", "2", "3"]))); }
    for f in ["0.5", "-1e-3", "1e30", ".", "0"] { lines.push(("float".into(), rec(".", &format!("FA=.,{f}"), "XF", [&format!(".,{f}"), ".,.", "1"]))); lines.push(("float".into(), rec(".", &format!("F1={f};FA={f},.,1.5"), "XF", [&format!("{f},1"), "2.5", "."]))); }
    let alleles = [".", "0", "1", "2", "61", "62"];   // 62 is the largest allele index an Int8 genotype can carry: (62 + 1) << 1 | 1 == 127
    let mut gts: Vec<String> = vec![".".into()];
    for a in alleles { gts.push(a.into()); for b in alleles { for ph in ["/", "|"] { gts.push(format!("{a}{ph}{b}")); } } }
    for a in ["0", "62", "."] { for b in ["1", "."] { for c in ["2", "61"] { gts.push(format!("{a}/{b}|{c}")); gts.push(format!("{a}|{b}|{c}/0")); } } }
    for (i, g) in gts.iter().enumerate() { let h = &gts[(i * 7 + 3) % gts.len()]; let k = &gts[(i * 13 + 5) % gts.len()]; lines.push(("genotype".into(), rec(".", ".", "GT", [g, h, k]))); if tier == "thorough" { let (x, y, z) = (format!("{k}:1"), format!("{g}:2"), format!("{h}:.")); lines.push(("genotype".into(), rec(".", ".", "GT:XI", [&x, &y, &z]))); } }
    // alleles the encoding cannot carry: the writer must refuse them (or carry them) — never write something else
    for a in ["63", "64", "126", "127", "128"] { for g in [format!("{a}"), format!("0/{a}"), format!("{a}|1"), format!("1|{a}/0")] { lines.push(("genotype-large-allele".into(), rec(".", ".", "GT", [&g, "0/1", "."]))); } }
    // a FORMAT column in which EVERY sample is missing, per type
    for (k, f) in [("format-int", "XI"), ("format-int-array", "XA"), ("float", "XF"), ("string", "XS"), ("format-int-array", "XI:XA")] { lines.push((k.into(), rec(".", ".", f, if f.contains(':') { ["1:.", "2:.", ".:."] } else { [".", ".", "."] }))); }
    let fidx = [0usize, 1, 2, 125, 126, 127, 128, 129, 254, 255, 256, 257, 299];
    for &i in &fidx { lines.push(("filter".into(), rec(&format!("q{i}"), ".", "XI", ["1", "2", "3"]))); for &j in &fidx { if i != j { lines.push(("filter".into(), rec(&format!("q{i};q{j}"), ".", "XI", ["1", "2", "3"]))); } } }
    for n in [1usize, 2, 13, 14, 15, 16, 17, 126, 127, 128, 129, 254, 255, 256, 257, 300] { let t = "x".repeat(n); lines.push(("string".into(), rec(".", &format!("S1={t}"), "XS", [&t, ".", "y"]))); }
    let mut rd = vcf::io::Reader::new(hdr.as_bytes());
    let header = rd.read_header().map_err(|e| format!("vcf header: {e:?}"))?;
    // the same header with ARBITRARY IDX assignments (C10 quantifies over them): PASS keeps 0, every other INFO / FILTER / FORMAT id gets a
    // dictionary index that is neither its position nor contiguous; the contig gets 3
    let hdr_idx: String = { let mut k = 0usize; hdr.lines().map(|l| { let mut l = l.to_string();
        if (l.starts_with("##INFO=<") || l.starts_with("##FILTER=<") || l.starts_with("##FORMAT=<")) && l.ends_with('>') { let idx = if l.contains("ID=PASS,") { 0 } else { k += 1; 1 + (k * 211) % 997 }; l.truncate(l.len() - 1); l.push_str(&format!(",IDX={idx}>")); }
        else if l.starts_with("##contig=<") && l.ends_with('>') { l.truncate(l.len() - 1); l.push_str(",IDX=3>"); }
        l.push('\n'); l }).collect() };
    let header_idx = vcf::io::Reader::new(hdr_idx.as_bytes()).read_header().map_err(|e| format!("vcf header with IDX: {e:?}"))?;
    let render = |h: &vcf::Header, r: &vcf::variant::RecordBuf| -> Result<String, String> { let mut w = vcf::io::Writer::new(Vec::new()); w.write_variant_record(h, r).map_err(|e| format!("render: {e}"))?; Ok(String::from_utf8_lossy(w.get_ref()).to_string()) };
    let mut fails: BTreeMap<(String, String), String> = BTreeMap::new();
    let (mut cases, mut refused) = (0u64, 0u64);
    let mut per_kind: BTreeMap<String, (u64, u64)> = BTreeMap::new();   // kind -> (round-tripped, refused by the writer)
    std::panic::set_hook(Box::new(|_| {}));
    for (pass, header) in [(0usize, &header), (1, &header_idx)] { for (li, (kind, line)) in lines.iter().enumerate() {
        if pass == 1 && li % 5 != 0 { continue; }
        let kind = &(if pass == 1 { format!("{kind}; header with arbitrary IDX") } else { kind.clone() });
        let mut rd = vcf::io::Reader::new(line.as_bytes());
        let mut orig = vcf::variant::RecordBuf::default();
        match rd.read_record_buf(&header, &mut orig) { Ok(n) if n > 0 => {}, _ => continue }   // not a VCF record the text reader accepts
        cases += 1;
        let short = { let f: Vec<&str> = line.trim_end().split('\t').collect(); format!("FILTER={} INFO={} FORMAT={} {}", f[6], if f[7].len() > 40 { &f[7][..40] } else { f[7] }, f[8], f[9..].iter().map(|x| if x.len() > 24 { &x[..24] } else { x }).collect::<Vec<_>>().join(" ")) };
        let mut note = |what: String| { fails.entry((kind.clone(), what.split(':').next().unwrap_or("").to_string())).or_insert_with(|| format!("bcf round trip [{kind}]: {what}; first such record: {short}")); };
        let r = std::panic::catch_unwind(std::panic::AssertUnwindSafe(|| -> Result<Option<String>, String> {
            let mut w = noodles_bcf::io::Writer::from(Vec::new());
            w.write_header(&header).map_err(|e| format!("write_header fails: {e}"))?;
            if w.write_variant_record(&header, &orig).is_err() { return Ok(None); }
            let data = w.get_ref().clone();
            let mut rd = noodles_bcf::io::Reader::from(&data[..]);
            let h2 = rd.read_header().map_err(|e| format!("reader rejects the written header: {e}"))?;
            let mut back = vcf::variant::RecordBuf::default();
            match rd.read_record_buf(&h2, &mut back) { Ok(n) if n > 0 => {}, Ok(_) => return Err("reader finds no record in the writer's output".into()), Err(_) => return Err("reader rejects the writer's output".into()) }
            // compared as values (RecordBuf: PartialEq), not through the VCF text writer; the text is only used to show a difference
            // a sample given as "." is an EMPTY value list for the VCF text reader and a list of missing values for the BCF reader:
            // the same content (all missing) — both are padded with None to the number of keys before comparing
            let norm = |r: &vcf::variant::RecordBuf| -> vcf::variant::RecordBuf {
                let mut r = r.clone();
                let keys = r.samples().keys().clone();
                let n = keys.as_ref().len();
                let vals: Vec<Vec<Option<vcf::variant::record_buf::samples::sample::Value>>> = r.samples().values().map(|s| { let mut v = s.values().to_vec(); v.resize(n, None); v }).collect();
                *r.samples_mut() = vcf::variant::record_buf::Samples::new(keys, vals);
                r
            };
            if norm(&orig) != norm(&back) {
                let (a, b) = (render(&header, &orig).unwrap_or_default(), render(&h2, &back).unwrap_or_default());
                let (fa, fb): (Vec<&str>, Vec<&str>) = (a.trim_end().split('\t').collect(), b.trim_end().split('\t').collect());
                let d: Vec<String> = (0..fa.len().max(fb.len())).filter(|&i| fa.get(i) != fb.get(i)).map(|i| format!("col {}: {:?} -> {:?}", i + 1, fa.get(i).map(|x| if x.len() > 40 { &x[..40] } else { x }), fb.get(i).map(|x| if x.len() > 40 { &x[..40] } else { x }))).collect();
                let dbg = if d.is_empty() { format!("samples {:?} -> {:?}", orig.samples(), back.samples()).chars().take(300).collect::<String>() } else { d.join(", ") };
                return Err(format!("reads back a different record: ({dbg})"));
            }
            let a = String::new();
            Ok(Some(a))
        }));
        match r { Err(_) => note("PANICS".into()), Ok(Err(e)) => note(e), Ok(Ok(None)) => { refused += 1; *per_kind.entry(kind.clone()).or_insert((0u64, 0u64)) = { let e = per_kind.get(kind).copied().unwrap_or((0, 0)); (e.0, e.1 + 1) }; }, Ok(Ok(Some(_))) => { let e = per_kind.get(kind).copied().unwrap_or((0, 0)); per_kind.insert(kind.clone(), (e.0 + 1, e.1)); } }
    }
    }
    let _ = std::panic::take_hook();
    // vacuity guard: every kind must have records that actually went through the writer and the reader
    // (only when nothing failed: a kind whose every record FAILS the round trip is a finding, not vacuity)
    if fails.is_empty() { for (k, (okc, _)) in &per_kind { if *okc == 0 && k != "genotype-large-allele" && !k.contains("arbitrary IDX") { return Err(format!("UNDECIDED: no record of kind {k} was accepted by the writer — the harness would be vacuous")); } } }
    if fails.is_empty() { Ok(format!("\"cases\":{cases},\"refused_by_writer\":{refused},\"round_tripped_per_kind\":{{{}}}", per_kind.iter().map(|(k, (a, b))| format!("\"{k}\":[{a},{b}]")).collect::<Vec<_>>().join(","))) }
    else { Err(format!("FAILURES\n{}", fails.values().cloned().collect::<Vec<_>>().join("\n"))) }
}

// ---------------------------------------------------------------------------------------------------------------------
// C05 BOUNDED-NATIVE stand-in for the orchestration no contract reaches (encoder::encode / decoder::decode over the record
// traits, writer/reader buffer reuse, the CG placeholder): SAM text -> RecordBuf -> ONE bam::io::Writer (records the writer
// must refuse are interleaved) -> bam::io::Reader, read three ways — read_record_buf into ONE reused RecordBuf, read_record
// (lazy) converted with try_from_alignment_record, and field by field through the lazy accessors — must give back the
// accepted records, in order, equal as RecordBuf values.  Never counted as proved.
fn bam_roundtrip(tier: &str) -> Result<String, String> {
    use noodles_sam as sam;
    use sam::alignment::io::Write as _;
    use sam::alignment::Record as _;
    use std::collections::BTreeMap;
    let header: sam::Header = "@HD\tVN:1.6\tSO:unsorted\n@SQ\tSN:sq0\tLN:2147483647\n@SQ\tSN:sq1\tLN:1000\n@RG\tID:rg0\n".parse().map_err(|e| format!("header: {e}"))?;
    let mut lines: Vec<(String, String)> = Vec::new();
    let seq = |n: usize| -> String { (0..n).map(|i| b"ACGTNRYKMSWBDHV="[i % 16] as char).collect() };
    let qual = |n: usize| -> String { (0..n).map(|i| (33 + (i * 7) % 94) as u8 as char).collect() };
    let rec = |name: &str, flag: u16, rname: &str, pos: u64, mapq: u8, cigar: &str, rnext: &str, pnext: u64, tlen: i64, s: &str, q: &str, data: &str| format!("{name}\t{flag}\t{rname}\t{pos}\t{mapq}\t{cigar}\t{rnext}\t{pnext}\t{tlen}\t{s}\t{q}{}{data}\n", if data.is_empty() { "" } else { "\t" });
    // names, flags, positions, mapq, template lengths
    for name in ["r", "*", &"n".repeat(254), "a:b/1"] { lines.push(("core".into(), rec(name, 0, "sq0", 1, 0, "4M", "*", 0, 0, "ACGT", "IIII", ""))); }
    for flag in [0u16, 1, 4, 16, 0x63, 0x93, 0x800, 0xfff] { lines.push(("core".into(), rec("r", flag, "sq0", 7, 30, "4M", "=", 100, 97, "ACGT", "IIII", ""))); }
    for pos in [1u64, 2, 16384, 16385, 536870911, 536870912, 536870913, 2147483646, 2147483647] { lines.push(("core".into(), rec("r", 0, "sq0", pos, 255, "1M", "sq1", pos.min(1000), -5, "A", "I", ""))); }
    for tlen in [-2147483648i64, -1, 0, 1, 2147483647] { lines.push(("core".into(), rec("r", 0, "sq0", 5, 1, "2M", "=", 5, tlen, "AC", "II", ""))); }
    lines.push(("core".into(), rec("u", 4, "*", 0, 255, "*", "*", 0, 0, "*", "*", "")));
    lines.push(("core".into(), rec("u", 4, "sq1", 9, 0, "*", "*", 0, 0, "ACG", "*", "")));
    // sequences / qualities: odd and even lengths, missing qualities after present ones (buffer reuse), all base codes
    for n in [1usize, 2, 3, 15, 16, 17, 255, 256] { lines.push(("seq".into(), rec("s", 0, "sq0", 3, 9, &format!("{n}M"), "*", 0, 0, &seq(n), &qual(n), ""))); lines.push(("seq".into(), rec("s", 0, "sq0", 3, 9, &format!("{n}M"), "*", 0, 0, &seq(n), "*", ""))); lines.push(("seq".into(), rec("s", 0, "sq0", 3, 9, "*", "*", 0, 0, "*", "*", ""))); }
    // cigar: every op kind, long lengths on ops that consume no read base, zero-read-length cigars
    lines.push(("cigar".into(), rec("c", 0, "sq0", 10, 9, "1H2S3M1I2M4D1M5N1M1P1=1X2S3H", "*", 0, 0, &seq(14), &qual(14), "")));
    lines.push(("cigar".into(), rec("c", 0, "sq0", 100000, 9, "1H2S2I1P", "*", 0, 0, "ACGT", "IIII", "")));   // a placed record whose CIGAR consumes no reference base
    lines.push(("cigar".into(), rec("c", 77, "sq0", 100000, 0, "*", "=", 100000, 0, "ACGT", "IIII", "")));      // an unmapped read placed at its mate
    for l in [1u32, 15, 16, 255, 65535, 65536, 268435455] { lines.push(("cigar".into(), rec("c", 0, "sq0", 10, 9, &format!("1M{l}D1M{l}N1M"), "*", 0, 0, "ACG", "III", ""))); }
    // more than 65535 operations: the CG placeholder
    for n in [65536usize, 65535, 65537] { let c: String = (0..n).map(|i| if i % 2 == 0 { "1M" } else { "1I" }).collect(); lines.push(("cigar-overflow".into(), rec("g", 0, "sq0", 10, 9, &c, "*", 0, 0, &seq(n), &qual(n), "NM:i:1"))); lines.push(("cigar-overflow-no-seq".into(), rec("h", 0, "sq0", 10, 9, &c, "*", 0, 0, "*", "*", ""))); if tier != "thorough" { break; } }
    // data fields
    for v in [-2147483648i64, -32769, -32768, -129, -128, -1, 0, 127, 128, 255, 256, 32767, 32768, 65535, 65536, 2147483647, 2147483648, 4294967295] { lines.push(("data".into(), rec("d", 0, "sq0", 1, 1, "1M", "*", 0, 0, "A", "I", &format!("XI:i:{v}\tRG:Z:rg0")))); }
    lines.push(("data".into(), rec("d", 0, "sq0", 1, 1, "1M", "*", 0, 0, "A", "I", "XA:A:!\tXZ:Z:\tXY:Z:a b\tXH:H:00FF\tXF:f:-1.5\tXB:B:c,-128,127\tXC:B:C,0,255\tXS:B:s,-32768,32767\tXT:B:S,0,65535\tXJ:B:i,-2147483648,2147483647\tXK:B:I,0,4294967295\tXG:B:f,0.25,-8\tXE:B:C")));
    let mut rd = sam::io::Reader::new(&b""[..]); let _ = &mut rd;
    // parse every line with the SAM reader; keep what it accepts
    let mut recs: Vec<(String, sam::alignment::RecordBuf)> = Vec::new();
    for (kind, line) in &lines { let mut r = sam::io::Reader::new(line.as_bytes()); let mut b = sam::alignment::RecordBuf::default(); if let Ok(n) = r.read_record_buf(&header, &mut b) { if n > 0 { recs.push((kind.clone(), b)); } } }
    // records the BAM writer must refuse (they are interleaved; a refusal must not disturb what follows)
    let bad_records: Vec<sam::alignment::RecordBuf> = {
        use sam::alignment::record_buf::{QualityScores, Sequence};
        let mut v = Vec::new();
        v.push(sam::alignment::RecordBuf::builder().set_name("bad-qual-len").set_sequence(Sequence::from(b"ACGT".to_vec())).set_quality_scores(QualityScores::from(vec![30, 30])).build());
        v.push(sam::alignment::RecordBuf::builder().set_name("bad-ref").set_reference_sequence_id(7).build());
        v.push(sam::alignment::RecordBuf::builder().set_name(&"x".repeat(255)[..]).build());
        v
    };
    let mut fails: BTreeMap<String, String> = BTreeMap::new();
    let mut w = noodles_bam::io::Writer::from(Vec::new());
    w.write_header(&header).map_err(|e| format!("write_header: {e}"))?;
    let mut accepted: Vec<(String, sam::alignment::RecordBuf)> = Vec::new();
    let (mut refused, mut bad_refused) = (0u64, 0u64);
    std::panic::set_hook(Box::new(|_| {}));
    for (i, (kind, r)) in recs.iter().enumerate() {
        if i % 5 == 2 { let b = &bad_records[(i / 5) % bad_records.len()]; match std::panic::catch_unwind(std::panic::AssertUnwindSafe(|| w.write_alignment_record(&header, b))) { Ok(Err(_)) => bad_refused += 1, Ok(Ok(())) => { fails.entry("writer accepts an invalid record".into()).or_insert_with(|| format!("bam round trip: the writer ACCEPTS the invalid record {:?}", b.name())); accepted.push(("bad".into(), b.clone())); } Err(_) => { fails.entry("writer panics".into()).or_insert_with(|| format!("bam round trip: the writer PANICS on the invalid record {:?}", b.name())); } } }
        match std::panic::catch_unwind(std::panic::AssertUnwindSafe(|| w.write_alignment_record(&header, r))) {
            Ok(Ok(())) => accepted.push((kind.clone(), r.clone())),
            Ok(Err(_)) => refused += 1,
            Err(_) => { fails.entry(format!("writer panics [{kind}]")).or_insert_with(|| format!("bam round trip [{kind}]: the writer PANICS on record {:?} flags {:?} cigar ops {}", r.name(), r.flags(), r.cigar().as_ref().len())); }
        }
    }
    let data = w.get_ref().clone();
    let short = |r: &sam::alignment::RecordBuf| format!("name {:?} pos {:?} cigar ops {} seq len {} data {:?}", r.name().map(|n| String::from_utf8_lossy(&n[..n.len().min(12)]).to_string()), r.alignment_start(), r.cigar().as_ref().len(), r.sequence().len(), r.data().iter().map(|(t, _)| format!("{t:?}")).collect::<Vec<_>>());
    // (a) one reused RecordBuf
    let ra = std::panic::catch_unwind(|| -> Result<Vec<sam::alignment::RecordBuf>, String> {
        let mut rd = noodles_bam::io::Reader::from(&data[..]); let h = rd.read_header().map_err(|e| format!("read_header: {e}"))?;
        let mut out = Vec::new(); let mut b = sam::alignment::RecordBuf::default();
        loop { match rd.read_record_buf(&h, &mut b) { Ok(0) => break, Ok(_) => out.push(b.clone()), Err(e) => return Err(format!("read_record_buf fails at record {}: {e}", out.len())) } }
        Ok(out)
    });
    // (b) lazy records converted, (c) lazy accessors
    let rb = std::panic::catch_unwind(|| -> Result<Vec<sam::alignment::RecordBuf>, String> {
        let mut rd = noodles_bam::io::Reader::from(&data[..]); let h = rd.read_header().map_err(|e| format!("read_header: {e}"))?;
        let mut out = Vec::new(); let mut r = noodles_bam::Record::default();
        loop { match rd.read_record(&mut r) { Ok(0) => break, Ok(_) => { let b = sam::alignment::RecordBuf::try_from_alignment_record(&h, &r).map_err(|e| format!("lazy record {} does not convert: {e}", out.len()))?;
            // lazy accessors agree with the eager decode
            if r.flags() != b.flags() || r.alignment_start().transpose().ok().flatten() != b.alignment_start() || r.sequence().len() != b.sequence().len() || r.quality_scores().as_ref().len() != b.quality_scores().as_ref().len() { return Err(format!("lazy accessors of record {} disagree with its eager decode", out.len())); }
            // every split of the lazy sequence: the two halves, iterated and indexed, are the bases of the whole
            { let sq = r.sequence(); let n = sq.len(); let whole: Vec<u8> = sq.iter().collect();
              if whole != b.sequence().as_ref() { return Err(format!("the lazy sequence of record {} iterates to other bases than its eager decode", out.len())); }
              let mids: Vec<usize> = if n <= 40 { (0..=n).collect() } else { vec![0, 1, 2, 3, n / 2, n / 2 + 1, n - 2, n - 1, n] };
              for mid in mids { match sq.split_at_checked(mid) { None => return Err(format!("split_at_checked({mid}) of a {n}-base lazy sequence returns None")), Some((x, y)) => {
                  let (xi, yi): (Vec<u8>, Vec<u8>) = (x.iter().collect(), y.iter().collect());
                  let (xg, yg): (Vec<u8>, Vec<u8>) = ((0..x.len()).filter_map(|i| x.get(i)).collect(), (0..y.len()).filter_map(|i| y.get(i)).collect());
                  if x.len() != mid || y.len() != n - mid || xi != whole[..mid] || yi != whole[mid..] || xg != whole[..mid] || yg != whole[mid..] { return Err(format!("lazy sequence of {n} bases split at {mid}: the halves iterate to {} + {} bases ({:?} | {:?}), the whole is {:?}", xi.len(), yi.len(), String::from_utf8_lossy(&xi[..xi.len().min(12)]), String::from_utf8_lossy(&yi[..yi.len().min(12)]), String::from_utf8_lossy(&whole[..whole.len().min(24)]))); } } } } }
            out.push(b) } Err(e) => return Err(format!("read_record fails at record {}: {e}", out.len())) } }
        Ok(out)
    });
    let _ = std::panic::take_hook();
    for (how, res) in [("read_record_buf (reused RecordBuf)", ra), ("read_record + try_from_alignment_record", rb)] {
        match res {
            Err(_) => { fails.entry(format!("{how} panics")).or_insert_with(|| format!("bam round trip: {how} PANICS on the writer's output")); }
            Ok(Err(e)) => { fails.entry(format!("{how} fails")).or_insert_with(|| format!("bam round trip: {how}: {e}")); }
            Ok(Ok(out)) => {
                if out.len() != accepted.len() { fails.entry(format!("{how} count")).or_insert_with(|| format!("bam round trip: {how} returns {} records, {} were written", out.len(), accepted.len())); }
                for (i, ((kind, a), b)) in accepted.iter().zip(out.iter()).enumerate() { if a != b {
                    let mut d = Vec::new();
                    if a.name() != b.name() { d.push("name"); } if a.flags() != b.flags() { d.push("flags"); } if a.reference_sequence_id() != b.reference_sequence_id() { d.push("reference"); }
                    if a.alignment_start() != b.alignment_start() { d.push("position"); } if a.mapping_quality() != b.mapping_quality() { d.push("mapq"); } if a.cigar() != b.cigar() { d.push("cigar"); }
                    if a.mate_reference_sequence_id() != b.mate_reference_sequence_id() || a.mate_alignment_start() != b.mate_alignment_start() || a.template_length() != b.template_length() { d.push("mate fields"); }
                    if a.sequence() != b.sequence() { d.push("sequence"); } if a.quality_scores() != b.quality_scores() { d.push("quality scores"); } if a.data() != b.data() { d.push("data"); }
                    let d = d.join(", ");
                    fails.entry(format!("{how} differs [{kind}] {d}")).or_insert_with(|| format!("bam round trip [{kind}]: {how} reads back a different record (differs in: {d}); first such record #{i}: wrote {} / read {}", short(a), short(b))); } }
            }
        }
    }
    // (e) the lazy records written again: bam::Record is an alignment record the writer accepts, and what it writes must read back as the
    // same records (a record with more than 65535 CIGAR operations carries the CG field in its raw data)
    {
        let r = std::panic::catch_unwind(|| -> Result<Vec<sam::alignment::RecordBuf>, String> {
            let mut rd = noodles_bam::io::Reader::from(&data[..]); let h = rd.read_header().map_err(|e| format!("read_header: {e}"))?;
            let mut w2 = noodles_bam::io::Writer::from(Vec::new()); w2.write_header(&h).map_err(|e| format!("write_header: {e}"))?;
            let mut r = noodles_bam::Record::default(); let mut n = 0;
            loop { match rd.read_record(&mut r) { Ok(0) => break, Ok(_) => { w2.write_alignment_record(&h, &r).map_err(|e| format!("the writer refuses lazy record {n}, which it wrote itself: {e}"))?; n += 1; } Err(e) => return Err(format!("read_record fails at record {n}: {e}")) } }
            let data2 = w2.get_ref().clone();
            let mut rd = noodles_bam::io::Reader::from(&data2[..]); let h = rd.read_header().map_err(|e| format!("read_header (second file): {e}"))?;
            let mut out = Vec::new(); let mut b = sam::alignment::RecordBuf::default();
            loop { match rd.read_record_buf(&h, &mut b) { Ok(0) => break, Ok(_) => out.push(b.clone()), Err(e) => return Err(format!("a file written from lazy records does not read back: read_record_buf fails at record {} ({}): {e}", out.len(), accepted.get(out.len()).map(|(k, _)| k.as_str()).unwrap_or("?"))) } }
            Ok(out) });
        match r { Err(_) => { fails.entry("lazy rewrite panics".into()).or_insert_with(|| "bam round trip: writing the lazy records again PANICS".into()); }
            Ok(Err(e)) => { fails.entry("lazy rewrite fails".into()).or_insert_with(|| format!("bam round trip: lazy records written again: {e}")); }
            Ok(Ok(out)) => { if out.len() != accepted.len() { fails.entry("lazy rewrite count".into()).or_insert_with(|| format!("bam round trip: lazy records written again: {} records read back, {} written", out.len(), accepted.len())); }
                if let Some(i) = accepted.iter().zip(out.iter()).position(|((_, a), b)| a != b) { fails.entry("lazy rewrite differs".into()).or_insert_with(|| format!("bam round trip [{}]: a lazy record written again reads back different; first such record #{i}: wrote {} / read {}", accepted[i].0, short(&accepted[i].1), short(&out[i]))); } } }
    }
    // (d) the stored bin of every record (raw walk of the writer's bytes, independent of the library): SAMv1 section 4.2 — reg2bin(pos, end) of
    // the 0-based half-open span, a placed record without reference span (CIGAR '*', or only S/I/H/P) counting as one base; 4680 = reg2bin(-1, 0)
    // for an unplaced one.  Only stated for coordinates below 2^29.
    {
        fn reg2bin(beg: i64, end: i64) -> u16 { let end = end - 1;
            if beg >> 14 == end >> 14 { return (((1 << 15) - 1) / 7 + (beg >> 14)) as u16; } if beg >> 17 == end >> 17 { return (((1 << 12) - 1) / 7 + (beg >> 17)) as u16; }
            if beg >> 20 == end >> 20 { return (((1 << 9) - 1) / 7 + (beg >> 20)) as u16; } if beg >> 23 == end >> 23 { return (((1 << 6) - 1) / 7 + (beg >> 23)) as u16; }
            if beg >> 26 == end >> 26 { return (((1 << 3) - 1) / 7 + (beg >> 26)) as u16; } 0 }
        let u = |p: usize| -> Option<usize> { Some(u32::from_le_bytes(data.get(p..p + 4)?.try_into().ok()?) as usize) };
        let walk = || -> Option<Vec<usize>> { let mut p = 8 + u(4)?; let n = u(p)?; p += 4; for _ in 0..n { p += 4 + u(p)?; p += 4; } let mut m = Vec::new(); while p < data.len() { m.push(p); p += 4 + u(p)?; } Some(m) };
        match walk() {
            Some(starts) if starts.len() == accepted.len() => {
                let mut checked = 0;
                for (i, ((kind, a), p)) in accepted.iter().zip(starts.iter()).enumerate() {
                    let stored = u16::from_le_bytes([data[p + 14], data[p + 15]]);
                    let expected = match a.alignment_start() { None => Some(4680u16), Some(s) => { let beg = usize::from(s) as i64 - 1; let span: i64 = a.cigar().as_ref().iter().filter(|op| op.kind().consumes_reference()).map(|op| op.len() as i64).sum(); let end = beg + span.max(1); if end <= (1 << 29) { Some(reg2bin(beg, end)) } else { None } } };
                    if let Some(e) = expected { checked += 1; if stored != e { fails.entry(format!("bin [{kind}] span {}", if a.alignment_end().is_some() && a.cigar().as_ref().iter().any(|op| op.kind().consumes_reference()) { "positive" } else { "zero" })).or_insert_with(|| format!("bam round trip [{kind}]: the stored bin of a record is not reg2bin of its span; first such record #{i} ({}): stored {stored}, the specification gives {e}", short(a))); } }
                }
                if checked < 30 && fails.is_empty() { return Err("UNDECIDED: fewer than 30 stored bins were checked".into()); }
            }
            _ => { fails.entry("bin walk".into()).or_insert_with(|| "bam round trip: an independent walk of the writer's output does not find one record per accepted record".into()); }
        }
    }
    if accepted.len() < 40 && fails.is_empty() { return Err("UNDECIDED: fewer than 40 records were accepted by the writer — the harness would be vacuous".into()); }
    if fails.is_empty() { Ok(format!("\"records_written\":{},\"refused_by_writer\":{refused},\"invalid_records_refused\":{bad_refused}", accepted.len())) }
    else { Err(format!("FAILURES\n{}", fails.values().cloned().collect::<Vec<_>>().join("\n"))) }
}

// ---------------------------------------------------------------------------------------------------------------------
// C07 / C19 / C08 BOUNDED-NATIVE stand-in for what no contract reaches (record <-> data series, codecs on realistic data,
// container bookkeeping, index + query): SAM text -> RecordBuf -> cram::io::Writer (several option/codec configurations)
// -> cram::io::Reader -> RecordBuf must give back the records (bases compared case-insensitively); an independent walk
// over the container headers checks the counters; cram::fs::index + Reader::query must return exactly what a scan keeps.
// Records WITHOUT quality scores are left out (known finding F37).  Never counted as proved.
/// every CRAI entry names a container that starts at that offset, one of ITS landmarks, and the size of the slice at that landmark
fn crai_entries_match(data: &[u8], index: &[noodles_cram::crai::Record]) -> Result<(), String> {
    let conts = crate::truncation::cram_containers(data).ok_or("the independent container walk fails on the writer's output")?;
    for (k, e) in index.iter().enumerate() {
        let c = conts.iter().find(|c| c.0 as u64 == e.offset()).ok_or_else(|| format!("index entry {k} names offset {}, where no container starts", e.offset()))?;
        let li = c.3.iter().position(|&l| l as u64 == e.landmark()).ok_or_else(|| format!("index entry {k} names landmark {}, the container at {} has landmarks {:?}", e.landmark(), c.0, c.3))?;
        let size = c.3.get(li + 1).copied().unwrap_or(c.2) - c.3[li];
        if e.slice_length() != size as u64 { return Err(format!("index entry {k} declares a slice of {} bytes at landmark {}, the container's landmarks give {size}", e.slice_length(), e.landmark())); }
    }
    Ok(())
}
fn cram_roundtrip(tier: &str) -> Result<String, String> {
    use noodles_sam as sam;
    use sam::alignment::io::Write as _;
    use noodles_cram::{codecs::{aac, rans_4x8, rans_nx16, Encoder}, container::{block_content_encoder_map::Builder as MapBuilder, compression_header::data_series_encodings::DataSeries, BlockContentEncoderMap}};
    use std::collections::BTreeMap;
    let base = |i: usize| b"ACGT"[((i as u64).wrapping_mul(2654435761) >> 7) as usize % 4];
    let refs: Vec<(String, Vec<u8>)> = vec![("sq0".into(), (0..260_000).map(base).collect()), ("sq1".into(), (0..260_000).map(|i| base(i + 17)).collect())];
    let header: sam::Header = format!("@HD\tVN:1.6\tSO:coordinate\n@SQ\tSN:sq0\tLN:{}\n@SQ\tSN:sq1\tLN:{}\n@RG\tID:rg0\n@RG\tID:rg1\n", refs[0].1.len(), refs[1].1.len()).parse().map_err(|e| format!("header: {e}"))?;
    let repo = noodles_fasta::Repository::new(refs.iter().map(|(n, s)| noodles_fasta::Record::new(noodles_fasta::record::Definition::new(n.clone(), None), noodles_fasta::record::Sequence::from(s.clone()))).collect::<Vec<_>>());
    // quality scores: mostly 12 common values; five values occur exactly once in the whole large set (relative frequency far below 1/4096)
    let qual = |n: usize, k: usize| -> String { (0..n).map(|i| if i == 0 && [5000usize, 9000, 12000, 15000, 18000].contains(&k) { (33 + (k / 1000) % 30) as u8 as char } else if (i + k) % 97 == 0 { (33 + 45 + (i % 20)) as u8 as char } else { (33 + 30 + ((i * 5 + k * 3) % 12)) as u8 as char }).collect() };
    // ---- a small, varied record set (one multi-reference slice) ----
    let rbases = |r: usize, pos: usize, n: usize| -> String { String::from_utf8(refs[r].1[pos - 1..pos - 1 + n].to_vec()).unwrap() };
    let mutate = |s: &str, i: usize, c: char| -> String { let mut v: Vec<char> = s.chars().collect(); v[i] = if v[i] == c { 'T' } else { c }; v.into_iter().collect() };
    let mut small: Vec<String> = Vec::new();
    let mut k = 0usize;
    let mut push = |v: &mut Vec<String>, name: &str, flag: u16, r: &str, pos: usize, mapq: u8, cigar: &str, rnext: &str, pnext: usize, tlen: i64, sq: &str, data: &str| { k += 1; v.push(format!("{name}\t{flag}\t{r}\t{pos}\t{mapq}\t{cigar}\t{rnext}\t{pnext}\t{tlen}\t{sq}\t{}{}{data}\n", qual(sq.len(), k), if data.is_empty() { "" } else { "\t" })); };
    push(&mut small, "m.0001", 0, "sq0", 5, 30, "20M", "*", 0, 0, &rbases(0, 5, 20), "RG:Z:rg0\tNM:i:0");
    push(&mut small, "m.0002", 16, "sq0", 9, 31, "20M", "*", 0, 0, &mutate(&rbases(0, 9, 20), 3, 'A'), "RG:Z:rg1\tXA:A:c");
    push(&mut small, "m.0003", 0, "sq0", 12, 32, "5M2I13M", "*", 0, 0, &format!("{}GG{}", rbases(0, 12, 5), rbases(0, 17, 13)), "XI:i:-70000\tXB:B:c,-1,2");
    push(&mut small, "m.0004", 0, "sq0", 15, 33, "5M1I14M", "*", 0, 0, &format!("{}C{}", rbases(0, 15, 5), rbases(0, 20, 14)), "");
    push(&mut small, "m.0005", 0, "sq0", 20, 34, "8M3D12M", "*", 0, 0, &format!("{}{}", rbases(0, 20, 8), rbases(0, 31, 12)), "XZ:Z:hello world");
    push(&mut small, "m.0006", 0, "sq0", 22, 35, "3S10M50N7M2S", "*", 0, 0, &format!("TTT{}{}AA", rbases(0, 22, 10), rbases(0, 82, 7)), "");
    push(&mut small, "m.0007", 0, "sq0", 25, 36, "2H18M1P2M3H", "*", 0, 0, &rbases(0, 25, 20), "XF:f:0.5");
    push(&mut small, "m.0008", 0, "sq0", 30, 37, "20M", "*", 0, 0, &mutate(&mutate(&rbases(0, 30, 20), 0, 'N'), 19, 'R'), "XH:H:CAFE");
    push(&mut small, "p.0009", 99, "sq0", 40, 40, "20M", "=", 90, 70, &rbases(0, 40, 20), "RG:Z:rg0");
    push(&mut small, "m.0010", 0, "sq0", 41, 20, "10M", "*", 0, 0, &rbases(0, 41, 10), "");            // contained in the previous, longer read
    push(&mut small, "p.0009", 147, "sq0", 90, 40, "20M", "=", 40, -70, &rbases(0, 90, 20), "RG:Z:rg0");
    push(&mut small, "q.0011", 65, "sq0", 100, 10, "20M", "sq1", 500, 0, &rbases(0, 100, 20), "");     // mate on another reference
    push(&mut small, "z.0012", 0, "sq0", 259_981, 1, "20M", "*", 0, 0, &rbases(0, 259_981, 20), "");   // last bases of the reference
    push(&mut small, "m.0013", 0, "sq1", 1, 1, "20M", "*", 0, 0, &rbases(1, 1, 20), "");
    push(&mut small, "q.0011", 129, "sq1", 500, 10, "20M", "sq0", 100, 0, &mutate(&rbases(1, 500, 20), 7, 'G'), "");
    push(&mut small, "u.0014", 69, "sq1", 500, 0, "*", "=", 500, 0, "ACGTNACGTN", "");                // placed unmapped
    push(&mut small, "m.0015", 0, "sq1", 600, 9, "20M", "*", 0, 0, &rbases(1, 600, 20), "");
    push(&mut small, "u.0016", 4, "*", 0, 0, "*", "*", 0, 0, "GATTACA", "XU:i:255");
    push(&mut small, "u.0017", 4, "*", 0, 0, "*", "*", 0, 0, "NNNNACGT", "");
    // (appended after the unplaced reads, so that the record numbers above stay what the known findings name) mates in the same slice whose ends depend on their OWN features (deletion, splice, insertion + clip): the template length is recomputed by the reader
    push(&mut small, "t.del1", 99, "sq0", 200, 40, "8M3D12M", "=", 205, 25, &format!("{}{}", rbases(0, 200, 8), rbases(0, 211, 12)), "");
    push(&mut small, "t.del1", 147, "sq0", 205, 40, "20M", "=", 200, -25, &rbases(0, 205, 20), "");
    push(&mut small, "t.spl", 99, "sq0", 300, 40, "5M30N5M", "=", 310, 40, &format!("{}{}", rbases(0, 300, 5), rbases(0, 335, 5)), "");
    push(&mut small, "t.spl", 147, "sq0", 310, 40, "10M", "=", 300, -40, &rbases(0, 310, 10), "");
    push(&mut small, "t.del2", 99, "sq0", 400, 40, "20M", "=", 410, 35, &rbases(0, 400, 20), "");
    push(&mut small, "t.del2", 147, "sq0", 410, 40, "10M5D10M", "=", 400, -35, &format!("{}{}", rbases(0, 410, 10), rbases(0, 425, 10)), "");
    push(&mut small, "t.ins", 99, "sq0", 500, 40, "20M", "=", 505, 20, &rbases(0, 500, 20), "");
    push(&mut small, "t.ins", 147, "sq0", 505, 40, "3S5M2I10M", "=", 500, -20, &format!("TTT{}GG{}", rbases(0, 505, 5), rbases(0, 510, 10)), "");
    // a record without a name (it reads back with a name the reader generates: only the OTHER names are compared), and records with bases
    // but no quality scores, mapped and unmapped, between records that have them (F66, F67)
    push(&mut small, "*", 0, "sq0", 700, 30, "20M", "*", 0, 0, &rbases(0, 700, 20), "");
    push(&mut small, "n.after", 0, "sq0", 710, 30, "20M", "*", 0, 0, &rbases(0, 710, 20), "");
    small.push(format!("noq.1\t0\tsq0\t720\t30\t20M\t*\t0\t0\t{}\t*\n", mutate(&rbases(0, 720, 20), 4, 'A')));
    push(&mut small, "q.after", 0, "sq0", 730, 30, "20M", "*", 0, 0, &rbases(0, 730, 20), "");
    small.push("noq.2\t4\t*\t0\t0\t*\t*\t0\t0\tACGTNACGTN\t*\n".to_string());
    push(&mut small, "q.last", 4, "*", 0, 0, "*", "*", 0, 0, "GATTACAGATTACA", "");
    // a pair whose FIRST record in the file is the RIGHTMOST one (an unsorted / collated stream): the leftmost mate has the positive template length
    push(&mut small, "o.pair", 83, "sq0", 900, 40, "20M", "=", 800, -120, &rbases(0, 900, 20), "");
    push(&mut small, "o.pair", 163, "sq0", 800, 40, "20M", "=", 900, 120, &rbases(0, 800, 20), "");
    // ---- a large single-reference-per-slice set: 10240 on sq0, 10240 on sq1, unmapped tail ----
    let mut big: Vec<String> = Vec::new();
    let nbig = 10240usize;
    for r in 0..2 { for i in 0..nbig { let pos = 1 + i * 25; let len = 20 + (i % 5) * 4; let mut sq = rbases(r, pos, len); if i % 7 == 3 { sq = mutate(&sq, i % len, 'A'); }
        let (cigar, sq) = if i % 11 == 5 { (format!("10M2I{}M", len - 10), format!("{}TT{}", &sq[..10], &sq[10..])) } else if i % 13 == 6 { (format!("10M4D{}M", len - 10), format!("{}{}", &sq[..10], rbases(r, pos + 14, len - 10))) } else { (format!("{len}M"), sq) };
        // names: mostly constant-width padded fields; every 40th pair has a zero-padded number followed by a SHORTER, larger one
        let name = if i % 40 == 10 { format!("lane.{:04}/1", 7 + (i / 40) % 90) } else if i % 40 == 11 { format!("lane.{:03}/1", 12 + (i / 40) % 90) } else { format!("read.{:04}.{:03}/{}", i / 7, i % 1000, 1 + i % 2) };
        push(&mut big, &name, if i % 3 == 0 { 16 } else { 0 }, if r == 0 { "sq0" } else { "sq1" }, pos, (i % 61) as u8, &cigar, "*", 0, 0, &sq, if i % 4 == 0 { "RG:Z:rg0" } else { "" }); } }
    for i in 0..600 { push(&mut big, &format!("unm.{i}"), 4, "*", 0, 0, "*", "*", 0, 0, "ACGTACGTAC", ""); }
    let parse = |lines: &Vec<String>| -> Result<Vec<sam::alignment::RecordBuf>, String> { let text: String = lines.concat(); let mut rd = sam::io::Reader::new(text.as_bytes()); rd.record_bufs(&header).collect::<Result<Vec<_>, _>>().map_err(|e| format!("sam: {e}")) };
    let small_recs = parse(&small)?; let big_recs = parse(&big)?;
    // only records WITHOUT bases (SEQ *): the series that hold bases and quality scores stay empty
    let nobase_recs = parse(&vec!["nb.1\t4\t*\t0\t0\t*\t*\t0\t0\t*\t*\n".to_string(), "nb.2\t4\t*\t0\t0\t*\t*\t0\t0\t*\t*\tXA:i:1\n".to_string(), "nb.3\t77\t*\t0\t0\t*\t*\t0\t0\t*\t*\n".to_string()])?;
    let mut fails: BTreeMap<String, String> = BTreeMap::new();
    // ---- comparison of a record read back with the one written ----
    let diff = |a: &sam::alignment::RecordBuf, b: &sam::alignment::RecordBuf| -> Vec<&'static str> {
        let mut d = Vec::new();
        if a.name().is_some() && a.name() != b.name() { d.push("name"); } /* a nameless record reads back with a generated name (CRAM) */ if a.flags() != b.flags() { d.push("flags"); } if a.reference_sequence_id() != b.reference_sequence_id() { d.push("reference"); }
        if a.alignment_start() != b.alignment_start() { d.push("position"); } if a.mapping_quality() != b.mapping_quality() && !a.flags().is_unmapped() { d.push("mapq"); }   // CRAM stores no mapping quality for unmapped reads
        if a.cigar() != b.cigar() { d.push("cigar"); }
        if a.mate_reference_sequence_id() != b.mate_reference_sequence_id() || a.mate_alignment_start() != b.mate_alignment_start() { d.push("mate position"); } if a.template_length() != b.template_length() { d.push("template length"); }
        if !a.sequence().as_ref().eq_ignore_ascii_case(b.sequence().as_ref()) { d.push("sequence"); } if a.quality_scores() != b.quality_scores() { d.push("quality scores"); }
        let tags = |r: &sam::alignment::RecordBuf| { let mut v: Vec<String> = r.data().iter().map(|(t, v)| format!("{t:?}={v:?}")).collect(); v.sort(); v };
        if tags(a) != tags(b) { d.push("data"); }
        d
    };
    let write = |recs: &[sam::alignment::RecordBuf], deltas: bool, map: Option<BlockContentEncoderMap>| -> Result<Vec<u8>, String> {
        let mut b = noodles_cram::io::writer::Builder::default().set_reference_sequence_repository(repo.clone()).encode_alignment_start_positions_as_deltas(deltas);
        if let Some(m) = map { b = b.set_block_content_encoder_map(m); }
        let mut w = b.build_from_writer(Vec::new());
        w.write_header(&header).map_err(|e| format!("write_header: {e}"))?;
        for r in recs { w.write_alignment_record(&header, r).map_err(|e| format!("write: {e}"))?; }
        w.try_finish(&header).map_err(|e| format!("finish: {e}"))?;
        Ok(w.get_ref().clone())
    };
    let read = |data: &[u8]| -> Result<Vec<sam::alignment::RecordBuf>, String> {
        let mut rd = noodles_cram::io::reader::Builder::default().set_reference_sequence_repository(repo.clone()).build_from_reader(data);
        let h = rd.read_header().map_err(|e| format!("read_header: {e}"))?;
        let mut out = Vec::new();
        for r in rd.records(&h) { let r = r.map_err(|e| format!("reading record {}: {e}", out.len()))?;
            // the record as the SAM writer would render it: every tag once
            { let mut seen: Vec<sam::alignment::record::data::field::Tag> = Vec::new(); for f in sam::alignment::Record::data(&r).iter() { let (t, _) = f.map_err(|e| format!("data of record {}: {e}", out.len()))?; if seen.contains(&t) { return Err(format!("the record read back yields the tag {}{} twice (cram::Record::data().iter(), what a SAM writer renders)", t.as_ref()[0] as char, t.as_ref()[1] as char)); } seen.push(t); } }
            out.push(sam::alignment::RecordBuf::try_from_alignment_record(&h, &r).map_err(|e| format!("converting record {}: {e}", out.len()))?); }
        Ok(out)
    };
    let mut configs: Vec<(String, bool, Option<BlockContentEncoderMap>)> = vec![("default".into(), true, None), ("absolute positions".into(), false, None)];
    let qs = DataSeries::QualityScores; let nm = DataSeries::Names; let bs = DataSeries::BamFlags;
    for (n, ds, e) in [("rANS 4x8 o0 on quality scores", qs, Encoder::Rans4x8(rans_4x8::Order::Zero)), ("rANS 4x8 o1 on quality scores", qs, Encoder::Rans4x8(rans_4x8::Order::One)),
        ("rANS Nx16 o0 on quality scores", qs, Encoder::RansNx16(rans_nx16::Flags::empty())), ("rANS Nx16 N32 on quality scores", qs, Encoder::RansNx16(rans_nx16::Flags::N32)), ("rANS Nx16 RLE on flags", bs, Encoder::RansNx16(rans_nx16::Flags::RLE)), ("rANS Nx16 PACK on flags", bs, Encoder::RansNx16(rans_nx16::Flags::PACK)),
        ("AAC o0 on quality scores", qs, Encoder::AdaptiveArithmeticCoding(aac::Flags::empty())), ("AAC o1 on quality scores", qs, Encoder::AdaptiveArithmeticCoding(aac::Flags::ORDER)), ("AAC RLE on flags", bs, Encoder::AdaptiveArithmeticCoding(aac::Flags::RLE)),
        ("name tokenizer on names", nm, Encoder::NameTokenizer), ("fqzcomp on quality scores", qs, Encoder::Fqzcomp), ("gzip on names", nm, Encoder::Gzip(Default::default())), ("bzip2 on quality scores", qs, Encoder::Bzip2(Default::default())), ("lzma on names", nm, Encoder::Lzma(6))] {
        configs.push((n.into(), true, Some(MapBuilder::default().set_data_series_encoder(ds, Some(e)).build())));
    }
    configs.push(("rANS Nx16 o0 as the default encoder".into(), true, Some(MapBuilder::default().set_default_encoder(Some(Encoder::RansNx16(rans_nx16::Flags::empty()))).build())));
    static PANIC_LOC: std::sync::Mutex<String> = std::sync::Mutex::new(String::new());
    std::panic::set_hook(Box::new(|info| { if let Some(l) = info.location() { let f = l.file(); let f = match f.find("/noodles-") { Some(i) => &f[i + 1..], None => f }; *PANIC_LOC.lock().unwrap() = format!("{}:{}", f, l.line()); } }));
    let mut cases = 0u64;
    let mut default_big: Option<Vec<u8>> = None;
    // what goes wrong -> (configurations under which it does, record set)
    let mut by_kind: BTreeMap<String, (Vec<String>, String)> = BTreeMap::new();
    for (cname, deltas, map) in configs {
        for (sname, recs) in [("small multi-reference set", &small_recs), ("21080-record set", &big_recs), ("set of records without bases", &nobase_recs)] {
            if sname.starts_with("21080") && tier != "thorough" && !(cname == "default" || cname.contains("tokenizer") || cname.contains("AAC o0") || cname.contains("Nx16 o0") || cname.contains("fqzcomp")) { continue; }
            cases += 1;
            let mut diffs: Vec<String> = Vec::new();
            let r = std::panic::catch_unwind(std::panic::AssertUnwindSafe(|| -> Result<Vec<u8>, String> {
                let data = write(recs, deltas, map.clone()).map_err(|e| format!("the writer fails ({e})"))?;
                let back = read(&data).map_err(|e| format!("the reader fails on the writer's output ({e})"))?;
                if back.len() != recs.len() { return Err(format!("{} records read back, {} written", back.len(), recs.len())); }
                // every differing record is its own finding (up to 8 per configuration), so that a known one does not hide another
                // the file definition's version against the compression methods of its blocks (independent walk): methods 5..8 (rANS Nx16, adaptive
                // arithmetic coder, fqzcomp, name tokenizer) exist from CRAM 3.1 on
                match crate::truncation::cram_block_methods(&data) { None => return Err("an independent walk of the written file's containers and blocks fails".into()),
                    Some(ms) => { if let Some(m) = ms.iter().find(|&&m| m >= 5) { if data[4..6] != [3, 1] { return Err(format!("the file is labelled CRAM {}.{} and holds a block with compression method {m}, which exists from 3.1 on", data[4], data[5])); } } } }
                for (i, (a, b)) in recs.iter().zip(back.iter()).enumerate() { let d = diff(a, b); if !d.is_empty() && diffs.len() < 8 { diffs.push(format!("record {i} ({:?}) reads back different in: {}", a.name().map(|n| n.to_string()), d.join(", "))); } }
                Ok(data)
            }));
            for e in &diffs { let en = by_kind.entry(e.clone()).or_insert_with(|| (Vec::new(), sname.to_string())); en.0.push(cname.clone()); }
            match r { Err(_) => { let loc = PANIC_LOC.lock().unwrap().clone(); let e = by_kind.entry(format!("PANICS at {loc}")).or_insert_with(|| (Vec::new(), sname.to_string())); e.0.push(cname.clone()); }
                Ok(Err(e)) => { let en = by_kind.entry(e.clone()).or_insert_with(|| (Vec::new(), sname.to_string())); en.0.push(cname.clone()); }
                Ok(Ok(data)) => { if cname == "default" && sname.starts_with("21080") && diffs.is_empty() { default_big = Some(data); } } }
        }
    }
    for (what, (cfgs, sname)) in &by_kind { fails.insert(format!("rt {what}"), format!("cram round trip: {what}; on the {sname}; under {} configuration(s): {}", cfgs.len(), cfgs.join(", "))); }
    // ---- container bookkeeping + index + query on the default 21080-record file ----
    if default_big.is_none() { default_big = std::panic::catch_unwind(std::panic::AssertUnwindSafe(|| write(&big_recs, true, None).ok())).ok().flatten(); }
    if let Some(data) = &default_big {
        let r = std::panic::catch_unwind(std::panic::AssertUnwindSafe(|| -> Result<(), String> {
            let mut rd = noodles_cram::io::Reader::new(&data[..]);
            rd.read_header().map_err(|e| format!("read_header: {e}"))?;
            let mut c = noodles_cram::io::reader::Container::default();
            let (mut counter, mut n_containers) = (0u64, 0);
            loop { let n = rd.read_container(&mut c).map_err(|e| format!("read_container: {e}"))?; if n == 0 { break; }
                if c.header().record_counter() != counter { return Err(format!("container {n_containers} declares record counter {} but {} records precede it", c.header().record_counter(), counter)); }
                let mut n_slices = 0;
                for sl in c.slices() { sl.map_err(|e| format!("slice: {e}"))?; n_slices += 1; }
                if n_slices != c.header().landmarks().len() { return Err(format!("container {n_containers} has {} landmarks for {n_slices} slices", c.header().landmarks().len())); }
                counter += c.header().record_count() as u64; n_containers += 1; }
            if counter != big_recs.len() as u64 { return Err(format!("the containers declare {counter} records in total, {} were written", big_recs.len())); }
            if n_containers < 3 { return Err(format!("UNDECIDED-only {n_containers} data containers")); }
            Ok(())
        }));
        match r { Err(_) => { fails.entry("walk panic".into()).or_insert_with(|| "cram containers: walking the container headers PANICS".into()); } Ok(Err(e)) => { fails.entry(format!("walk {}", &e[..e.len().min(30)])).or_insert_with(|| format!("cram containers: {e}")); } Ok(Ok(())) => {} }
        // index + query vs scan: the 3-container file, and a 2-container file [one reference | unplaced tail] (an index whose LAST entries are the unplaced ones)
        let tail_only: Vec<sam::alignment::RecordBuf> = big_recs.iter().filter(|r| r.reference_sequence_id() != Some(1)).cloned().collect();
        let tail_data = std::panic::catch_unwind(std::panic::AssertUnwindSafe(|| write(&tail_only, true, None).ok())).ok().flatten();
        for (fname, data, frecs) in [("21080-record file", Some(data), &big_recs), ("one reference + unplaced tail", tail_data.as_ref(), &tail_only)] {
        let Some(data) = data else { fails.entry(format!("no file {fname}")).or_insert_with(|| format!("cram index+query: the writer fails on the {fname}")); continue; };
        let path = std::env::temp_dir().join(format!("verif-native-{}.cram", std::process::id()));
        let r = std::panic::catch_unwind(std::panic::AssertUnwindSafe(|| -> Result<u64, String> {
            std::fs::write(&path, data).map_err(|e| format!("tmp file: {e}"))?;
            let index = noodles_cram::fs::index(&path).map_err(|e| format!("cram::fs::index fails ({e})"))?;
            // every index entry names a container that starts at that offset, one of ITS landmarks, and the size of the slice at that landmark
            // (independent walk of the container headers)
            crai_entries_match(data, &index)?;
            let mut q = 0u64;
            for region in ["sq0:1-30", "sq0:26-26", "sq0:1000-1010", "sq0:255976-260000", "sq0", "sq1:1-1", "sq1:5000-5100", "sq1", "sq0:260000-260000"] {
                let region: noodles_core::Region = region.parse().map_err(|e| format!("region: {e}"))?;
                let rid = header.reference_sequences().get_index_of(region.name()).unwrap();
                let expected: Vec<String> = frecs.iter().filter(|r| r.reference_sequence_id() == Some(rid) && !r.flags().is_unmapped() && match (r.alignment_start(), r.alignment_end()) { (Some(s), Some(e)) => region.interval().intersects((s..=e).into()), _ => false }).map(|r| format!("{:?}@{:?}", r.name().map(|n| n.to_string()), r.alignment_start())).collect();
                let mut rd = noodles_cram::io::reader::Builder::default().set_reference_sequence_repository(repo.clone()).build_from_path(&path).map_err(|e| format!("open: {e}"))?;
                let h = rd.read_header().map_err(|e| format!("read_header: {e}"))?;
                let got: Vec<String> = rd.query(&h, &index, &region).map_err(|e| format!("query: {e}"))?.records().map(|r| r.map(|r| format!("{:?}@{:?}", r.name().map(|n| n.to_string()), r.alignment_start()))).collect::<Result<_, _>>().map_err(|e| format!("query record: {e}"))?;
                q += 1;
                if got != expected { return Err(format!("query {region} returns {} records, a scan keeps {} (first returned {:?}, first expected {:?})", got.len(), expected.len(), got.first(), expected.first())); }
            }
            Ok(q)
        }));
        let _ = std::fs::remove_file(&path);
        match r { Err(_) => { fails.entry(format!("query panic {fname}")).or_insert_with(|| format!("cram index+query [{fname}]: PANICS")); } Ok(Err(e)) => { fails.entry(format!("query {fname} {}", &e[..e.len().min(24)])).or_insert_with(|| if fname.starts_with("21080") { format!("cram index+query: {e}") } else { format!("cram index+query [{fname}]: {e}") }); } Ok(Ok(_)) => {} }
        }
    } else { fails.entry("no default file".into()).or_insert_with(|| "cram round trip: the default configuration did not produce a file for the container/index checks".into()); }
    // ---- a multi-reference slice that cram::fs::index can decode without a reference (deletion-only reads; see F8): one CRAI entry
    // per reference with the true span, and queries through it ----
    {
        let mut multi: Vec<String> = Vec::new();
        for (name, r, pos, cig) in [("d.0", "sq0", 90usize, "5D"), ("d.1", "sq0", 100, "300D"), ("d.2", "sq0", 150, "20D"), ("d.4", "sq1", 50, "100D"), ("d.5", "sq1", 60, "10D")] /* the last read of each reference ends BEFORE an earlier one */ { multi.push(format!("{name}\t0\t{r}\t{pos}\t30\t{cig}\t*\t0\t0\t*\t*\n")); }
        multi.push(format!("u.1\t4\t*\t0\t0\t*\t*\t0\t0\tACGTACGT\t{}\n", qual(8, 1)));
        multi.push(format!("u.2\t4\t*\t0\t0\t*\t*\t0\t0\tGGGG\t{}\n", qual(4, 2)));
        let path = std::env::temp_dir().join(format!("verif-native-{}-multi.cram", std::process::id()));
        let r = std::panic::catch_unwind(std::panic::AssertUnwindSafe(|| -> Result<(), String> {
            let recs = parse(&multi)?;
            let data = write(&recs, true, None).map_err(|e| format!("the writer fails ({e})"))?;
            let back = read(&data).map_err(|e| format!("the reader fails on the writer's output ({e})"))?;
            if back.len() != recs.len() { return Err(format!("{} records read back, {} written", back.len(), recs.len())); }
            std::fs::write(&path, &data).map_err(|e| format!("tmp file: {e}"))?;
            let index = noodles_cram::fs::index(&path).map_err(|e| format!("cram::fs::index fails ({e})"))?;
            crai_entries_match(&data, &index)?;
            // expected entries: one per reference present (and one for the unplaced reads), with the span of its records
            for (rid, name) in [(0usize, "sq0"), (1, "sq1")] {
                let (mut lo, mut hi) = (usize::MAX, 0usize);
                for r in recs.iter().filter(|r| r.reference_sequence_id() == Some(rid)) { lo = lo.min(usize::from(r.alignment_start().unwrap())); hi = hi.max(usize::from(r.alignment_end().unwrap())); }
                let es: Vec<_> = index.iter().filter(|e| e.reference_sequence_id() == Some(rid)).collect();
                if es.len() != 1 { return Err(format!("the index has {} entries for {name}, expected 1 (multi-reference slice)", es.len())); }
                let (s, span) = (es[0].alignment_start().map(usize::from), es[0].alignment_span());
                if s != Some(lo) || span != hi - lo + 1 { return Err(format!("the index entry of {name} covers start {s:?} span {span}; its records cover start {lo} span {}", hi - lo + 1)); }
            }
            if index.iter().filter(|e| e.reference_sequence_id().is_none()).count() != 1 { return Err("the index has no single entry for the unplaced reads of the multi-reference slice".into()); }
            for region in ["sq0", "sq0:120-130", "sq0:390-395", "sq1", "sq1:55-58", "sq1:1-49"] {
                let region: noodles_core::Region = region.parse().map_err(|e| format!("region: {e}"))?;
                let rid = header.reference_sequences().get_index_of(region.name()).unwrap();
                let expected: Vec<String> = recs.iter().filter(|r| r.reference_sequence_id() == Some(rid) && match (r.alignment_start(), r.alignment_end()) { (Some(s), Some(e)) => region.interval().intersects((s..=e).into()), _ => false }).map(|r| format!("{:?}", r.name().map(|n| n.to_string()))).collect();
                let mut rd = noodles_cram::io::reader::Builder::default().set_reference_sequence_repository(repo.clone()).build_from_path(&path).map_err(|e| format!("open: {e}"))?;
                let h = rd.read_header().map_err(|e| format!("read_header: {e}"))?;
                let got: Vec<String> = rd.query(&h, &index, &region).map_err(|e| format!("query: {e}"))?.records().map(|r| r.map(|r| format!("{:?}", r.name().map(|n| n.to_string())))).collect::<Result<_, _>>().map_err(|e| format!("query record: {e}"))?;
                if got != expected { return Err(format!("query {region} on the multi-reference slice returns {got:?}, a scan keeps {expected:?}")); }
            }
            Ok(())
        }));
        let _ = std::fs::remove_file(&path);
        match r { Err(_) => { fails.entry("multi panic".into()).or_insert_with(|| format!("cram multi-reference slice index+query: PANICS at {}", PANIC_LOC.lock().unwrap())); } Ok(Err(e)) => { fails.entry(format!("multi {}", &e[..e.len().min(40)])).or_insert_with(|| format!("cram multi-reference slice index+query: {e}")); } Ok(Ok(())) => {} }
    }
    let _ = std::panic::take_hook();
    if fails.is_empty() { Ok(format!("\"configurations_x_record_sets\":{cases},\"records\":{}", small_recs.len() + big_recs.len())) }
    else { Err(format!("FAILURES\n{}", fails.values().cloned().collect::<Vec<_>>().join("\n"))) }
}

// ---------------------------------------------------------------------------------------------------------------------
// C04 / C17 BOUNDED-NATIVE stand-in for the orchestration no contract reaches (indexers, csi::io::Query, the format readers'
// re-filter, index files): coordinate-sorted BAM, bgzipped VCF and BCF files written by noodles, the BAI / CSI / tabix
// index noodles builds for them — used in memory AND after being written to and read from an index file — and a family of
// regions (point, bin-aligned, whole reference, half-bounded, empty reference): the query must return exactly the records
// a full scan keeps, in file order.  Record spans are chosen to cross the 16 kb / 128 kb / 1 Mb / 8 Mb / 64 Mb bin edges,
// with long records preceding short ones.  Never counted as proved.
fn index_query(_tier: &str) -> Result<String, String> {
    // an index read back from the file it was written to: same geometry, header (tabix: format, columns, names), unplaced count (Some(0) is not None),
    // and per reference sequence the same bins, chunks and metadata pseudo-bin (the linear index too; the binned loffsets are rewritten by the writer: F2)
    macro_rules! same_index { ($what:expr, $a:expr, $b:expr, $linear:expr, $fails:expr) => {{
        use csi::binning_index::{BinningIndex as _, ReferenceSequence as _};
        let (a, b) = ($a, $b);
        let mut d: Vec<String> = Vec::new();
        if a.min_shift() != b.min_shift() || a.depth() != b.depth() { d.push(format!("geometry ({}, {}) -> ({}, {})", a.min_shift(), a.depth(), b.min_shift(), b.depth())); }
        if a.header() != b.header() { d.push("header".into()); }
        if a.unplaced_unmapped_record_count() != b.unplaced_unmapped_record_count() { d.push(format!("unplaced unmapped record count {:?} -> {:?}", a.unplaced_unmapped_record_count(), b.unplaced_unmapped_record_count())); }
        if a.reference_sequences().len() != b.reference_sequences().len() { d.push(format!("{} -> {} reference sequences", a.reference_sequences().len(), b.reference_sequences().len())); }
        else { for (k, (x, y)) in a.reference_sequences().iter().zip(b.reference_sequences().iter()).enumerate() {
            if x.bins() != y.bins() { d.push(format!("bins of reference sequence {k}")); } if x.metadata() != y.metadata() { d.push(format!("metadata of reference sequence {k}")); }
            if $linear && format!("{:?}", x.index()) != format!("{:?}", y.index()) { d.push(format!("linear index of reference sequence {k}")); } } }
        if !d.is_empty() { $fails.push((format!("index file {}", $what), format!("index file [{}]: the index read back differs from the one written in: {}", $what, d.join(", ")))); }
    }} }
    let idx_fails: std::cell::RefCell<Vec<(String, String)>> = std::cell::RefCell::new(Vec::new());
    use noodles_sam as sam;
    use noodles_vcf as vcf;
    use noodles_csi::{self as csi, BinningIndex};
    use sam::alignment::io::Write as _;
    use vcf::variant::io::Write as _;
    use std::collections::BTreeMap;
    let dir = std::env::temp_dir().join(format!("verif-native-iq-{}", std::process::id()));
    std::fs::create_dir_all(&dir).map_err(|e| format!("tmp dir: {e}"))?;
    let mut fails: BTreeMap<String, String> = BTreeMap::new();
    let mut queries = 0u64;
    let p = |n: usize| noodles_core::Position::new(n).unwrap();
    // (start, reference span) of the features on the first reference: crossing every bin edge, long before short
    let edges = [16384usize, 131072, 1048576, 8388608, 67108864];
    let mut feats: Vec<(usize, usize)> = vec![(1, 1), (1, 200_000), (100, 50), (16000, 500), (16384, 1), (16385, 1), (20000, 10), (20005, 3)];
    for &e in &edges { feats.push((e - 100, 50)); feats.push((e - 10, 20)); feats.push((e, 1)); feats.push((e + 1, 30)); }
    feats.push((5_000_000, 70_000_000)); feats.push((5_000_100, 10)); feats.push((70_000_000, 5)); feats.push((200_000_000, 100)); feats.push((536_870_000, 900));
    feats.sort();
    let regions_for = |name: &str| -> Vec<noodles_core::Region> {
        let mut v: Vec<noodles_core::Region> = Vec::new();
        let nm = |a: usize, b: usize| noodles_core::Region::new(name, p(a)..=p(b));
        v.push(noodles_core::Region::new(name, ..)); v.push(nm(1, 1)); v.push(nm(1, 16384)); v.push(nm(16384, 16384)); v.push(nm(16385, 32768)); v.push(nm(20001, 20002)); v.push(nm(20005, 20006)); v.push(nm(150_000, 150_100));
        for &e in &edges { v.push(nm(e, e)); v.push(nm(e + 1, e + 1)); v.push(nm(e - 5, e + 5)); }
        v.push(nm(60_000_000, 60_000_010)); v.push(nm(74_999_990, 75_000_200)); v.push(nm(300_000_000, 400_000_000)); v.push(nm(536_870_500, 536_870_911));
        v.push(noodles_core::Region::new(name, p(20000)..)); v.push(noodles_core::Region::new(name, p(67_108_864)..)); v.push(noodles_core::Region::new(name, ..=p(16384))); v.push(noodles_core::Region::new(name, ..=p(99)));
        v
    };
    // (file + index kind, what is wrong) -> every region where it is wrong, with the records concerned.  Reported as ONE finding per key
    // with the number of regions and a digest of the whole list, so that a recorded finding only matches the exact same set of wrong answers.
    let mut mism: BTreeMap<String, Vec<String>> = BTreeMap::new();
    std::panic::set_hook(Box::new(|_| {}));
    // =============================================== BAM ===============================================
    let bam_path = dir.join("a.bam");
    let r = std::panic::catch_unwind(std::panic::AssertUnwindSafe(|| -> Result<(), String> {
        let header: sam::Header = "@HD\tVN:1.6\tSO:coordinate\n@SQ\tSN:sq0\tLN:536870911\n@SQ\tSN:empty\tLN:1000\n@SQ\tSN:sq2\tLN:100000\n".parse().map_err(|e| format!("header: {e}"))?;
        let mut lines = String::new();
        for (i, (s, span)) in feats.iter().enumerate() { let cigar = if *span == 1 { "1M".to_string() } else { format!("1M{}N1M", span - 2).replace("1M0N1M", "2M") }; let seq = if *span == 1 { "A" } else { "AC" }; lines.push_str(&format!("r{i}\t0\tsq0\t{s}\t30\t{cigar}\t*\t0\t0\t{seq}\t{}\n", "I".repeat(seq.len()))); }
        for i in 0..300 { lines.push_str(&format!("m{i}\t0\tsq2\t{}\t30\t10M\t*\t0\t0\tACGTACGTAC\tIIIIIIIIII\n", 1 + i * 7)); }
        lines.push_str("pu\t4\tsq2\t5000\t0\t*\t*\t0\t0\tACGT\tIIII\n");
        for i in 0..5 { lines.push_str(&format!("u{i}\t4\t*\t0\t0\t*\t*\t0\t0\tACGT\tIIII\n")); }
        let mut rd = sam::io::Reader::new(lines.as_bytes());
        let recs: Vec<sam::alignment::RecordBuf> = rd.record_bufs(&header).collect::<Result<_, _>>().map_err(|e| format!("sam: {e}"))?;
        { let mut w = noodles_bam::io::Writer::new(std::fs::File::create(&bam_path).map_err(|e| format!("create: {e}"))?); w.write_header(&header).map_err(|e| format!("write_header: {e}"))?; for r in &recs { w.write_alignment_record(&header, r).map_err(|e| format!("write: {e}"))?; } w.try_finish().map_err(|e| format!("finish: {e}"))?; }
        let key = |r: &sam::alignment::RecordBuf| format!("{}", r.name().map(|n| n.to_string()).unwrap_or_default());
        let mut truth: BTreeMap<String, (usize, usize)> = BTreeMap::new();
        for (i, (s, span)) in feats.iter().enumerate() { truth.insert(format!("r{i}"), (*s, s + span - 1)); }
        for i in 0..300 { truth.insert(format!("m{i}"), (1 + i * 7, 1 + i * 7 + 9)); }
        truth.insert("pu".into(), (5000, 5000));   // a placed unmapped read occupies its position (as in samtools)
        let bai = noodles_bam::fs::index(&bam_path).map_err(|e| format!("bam::fs::index: {e}"))?;
        noodles_bam::bai::fs::write(dir.join("a.bai"), &bai).map_err(|e| format!("bai write: {e}"))?;
        let bai2 = noodles_bam::bai::fs::read(dir.join("a.bai")).map_err(|e| format!("bai read: {e}"))?;
        same_index!("BAI", &bai, &bai2, true, idx_fails.borrow_mut());
        // a CSI index for the same file, built the way bam::fs::index builds the BAI
        let csi_mem = { let mut rd = noodles_bam::io::Reader::new(std::fs::File::open(&bam_path).map_err(|e| format!("open: {e}"))?); rd.read_header().map_err(|e| format!("read_header: {e}"))?;
            let mut ix = csi::binning_index::Indexer::<csi::binning_index::index::reference_sequence::index::BinnedIndex>::new(14, 5);
            let mut rec = noodles_bam::Record::default(); let mut start = rd.get_ref().virtual_position();
            while rd.read_record(&mut rec).map_err(|e| format!("read_record: {e}"))? != 0 { let end = rd.get_ref().virtual_position(); let chunk = csi::binning_index::index::reference_sequence::bin::Chunk::new(start, end);
                use sam::alignment::Record as _;
                let ctx = match (rec.reference_sequence_id().transpose().map_err(|e| format!("{e}"))?, rec.alignment_start().transpose().map_err(|e| format!("{e}"))?, rec.alignment_end().transpose().map_err(|e| format!("{e}"))?) { (Some(id), Some(s), Some(e)) => Some((id, s, e, !rec.flags().is_unmapped())), _ => None };
                ix.add_record(ctx, chunk).map_err(|e| format!("add_record: {e}"))?; start = end; }
            ix.build(3) };
        csi::fs::write(dir.join("a.csi"), &csi_mem).map_err(|e| format!("csi write: {e}"))?;
        let csi_file = csi::fs::read(dir.join("a.csi")).map_err(|e| format!("csi read: {e}"))?;
        same_index!("CSI of a BAM", &csi_mem, &csi_file, false, idx_fails.borrow_mut());
        let mut run = |iname: &str, query: &mut dyn FnMut(&noodles_core::Region) -> Result<Vec<String>, String>, reuse: bool| {
            // reuse: ONE reader serves every query, the regions are visited from the last to the first and each one twice in a row
            // (a query must not depend on where an earlier query left the reader)
            for refname in if reuse { ["sq2", "empty", "sq0"] } else { ["sq0", "empty", "sq2"] } { let rid = header.reference_sequences().get_index_of(refname.as_bytes()).unwrap();
                let mut regs = regions_for(refname); if reuse { regs.reverse(); regs = regs.into_iter().flat_map(|r| [r.clone(), r]).collect(); }
                for region in regs {
                    if refname != "sq0" && region.interval().start().map(usize::from).unwrap_or(1) > 100_000 { continue; }
                    // the spans come from the generator (start, reference span), not from the library's alignment_end
                    let expected: Vec<String> = recs.iter().filter(|r| r.reference_sequence_id() == Some(rid)).filter_map(|r| { let k = key(r); let (s, e) = *truth.get(&k)?; if region.interval().intersects((p(s)..=p(e)).into()) { Some(k) } else { None } }).collect();
                    queries += 1;
                    match query(&region) { Ok(got) => if got != expected { let missing: Vec<&String> = expected.iter().filter(|x| !got.contains(x)).collect(); let extra: Vec<&String> = got.iter().filter(|x| !expected.contains(x)).collect();
                            let what = if !missing.is_empty() { "omits records a scan keeps" } else if !extra.is_empty() { "returns records a scan drops" } else { "returns the records in a different order or more than once" };
                            mism.entry(format!("BAM + {iname}]: {what}")).or_default().push(format!("{region}: missing {missing:?} extra {extra:?} got {}", got.len())); },
                        Err(e) => { fails.entry(format!("bam {iname} error")).or_insert_with(|| format!("index query [BAM + {iname}]: region {region} fails: {e}")); } }
                } }
        };
        macro_rules! q { ($ix:expr) => { &mut |region: &noodles_core::Region| -> Result<Vec<String>, String> { let mut rd = noodles_bam::io::Reader::new(std::fs::File::open(&bam_path).map_err(|e| format!("open: {e}"))?); let h = rd.read_header().map_err(|e| format!("read_header: {e}"))?; let q = rd.query(&h, $ix, region).map_err(|e| format!("query: {e}"))?; q.records().map(|r| r.map(|r| { use sam::alignment::Record as _; r.name().map(|n| n.to_string()).unwrap_or_default() })).collect::<Result<Vec<_>, _>>().map_err(|e| format!("record: {e}")) } } }
        run("BAI in memory", q!(&bai), false); run("BAI from file", q!(&bai2), false); run("CSI in memory", q!(&csi_mem), false); run("CSI from file", q!(&csi_file), false);
        {
            let mut rd = noodles_bam::io::Reader::new(std::fs::File::open(&bam_path).map_err(|e| format!("open: {e}"))?); let h = rd.read_header().map_err(|e| format!("read_header: {e}"))?;
            macro_rules! qr { ($ix:expr) => { &mut |region: &noodles_core::Region| -> Result<Vec<String>, String> { let q = rd.query(&h, $ix, region).map_err(|e| format!("query: {e}"))?; q.records().map(|r| r.map(|r| { use sam::alignment::Record as _; r.name().map(|n| n.to_string()).unwrap_or_default() })).collect::<Result<Vec<_>, _>>().map_err(|e| format!("record: {e}")) } } }
            run("BAI from file, one reader for all queries", qr!(&bai2), true); run("BAI in memory, one reader for all queries", qr!(&bai), true);   // (linear indexes only: the CSI runs above already list F2 once)
        }
        // the unmapped query: every unplaced unmapped record, in file order, nothing else
        for (iname, ix) in [("BAI in memory", &bai), ("BAI from file", &bai2)] {
            let mut rd = noodles_bam::io::Reader::new(std::fs::File::open(&bam_path).map_err(|e| format!("open: {e}"))?); rd.read_header().map_err(|e| format!("read_header: {e}"))?;
            let got: Vec<String> = rd.query_unmapped(ix).map_err(|e| format!("query_unmapped: {e}"))?.map(|r| r.map(|r| { use sam::alignment::Record as _; r.name().map(|n| n.to_string()).unwrap_or_default() })).collect::<Result<_, _>>().map_err(|e| format!("unmapped record: {e}"))?;
            let expected: Vec<String> = recs.iter().filter(|r| r.reference_sequence_id().is_none()).map(key).collect();
            queries += 1;
            // every unplaced unmapped record, in file order; anything else returned must at least be flagged unmapped (a PLACED unmapped read may show up)
            let unplaced_got: Vec<String> = got.iter().filter(|g| expected.contains(g)).cloned().collect();
            let not_unmapped: Vec<&String> = got.iter().filter(|g| recs.iter().any(|r| &key(r) == *g && !r.flags().is_unmapped())).collect();
            if unplaced_got != expected || !not_unmapped.is_empty() { fails.entry(format!("bam {iname} unmapped")).or_insert_with(|| format!("index query [BAM + {iname}]: the unmapped query returns {got:?}; the unplaced unmapped records are {expected:?}")); }
        }
        if bai.unplaced_unmapped_record_count() != Some(5) || bai2.unplaced_unmapped_record_count() != Some(5) { fails.entry("bam unplaced count".into()).or_insert_with(|| format!("index [BAI]: unplaced unmapped record count {:?} in memory / {:?} from file, expected Some(5)", bai.unplaced_unmapped_record_count(), bai2.unplaced_unmapped_record_count())); }
        Ok(())
    }));
    match r { Err(_) => { fails.entry("bam panic".into()).or_insert_with(|| "index query [BAM]: PANICS".into()); } Ok(Err(e)) => { fails.entry("bam setup".into()).or_insert_with(|| format!("index query [BAM]: {e}")); } Ok(Ok(())) => {} }
    // =============================================== VCF (tabix) and BCF (CSI) ===============================================
    let r = std::panic::catch_unwind(std::panic::AssertUnwindSafe(|| -> Result<(), String> {
        for (fmt, fileformat) in [("VCF 4.3", "VCFv4.3"), ("VCF 4.5", "VCFv4.5")] {
            let mut text = format!("##fileformat={fileformat}\n##INFO=<ID=END,Number=1,Type=Integer,Description=\"e\">\n##INFO=<ID=SVLEN,Number={},Type=Integer,Description=\"l\">\n##FORMAT=<ID=GT,Number=1,Type=String,Description=\"g\">\n##FORMAT=<ID=LEN,Number=1,Type=Integer,Description=\"l\">\n##contig=<ID=sq0,length=536870911>\n##contig=<ID=empty,length=1000>\n##contig=<ID=sq2,length=100000>\n#CHROM\tPOS\tID\tREF\tALT\tQUAL\tFILTER\tINFO\tFORMAT\ts0\ts1\n", if fileformat == "VCFv4.3" { "." } else { "A" });
            for (i, (s, span)) in feats.iter().enumerate() {
                // spans come from REF length, INFO END (<= 4.4), or SVLEN / per-sample LEN (4.5)
                let line = if *span <= 30 { format!("sq0\t{s}\tv{i}\t{}\tT\t.\t.\t.\tGT\t0/1\t0/0\n", "A".repeat(*span)) }
                    else if fileformat == "VCFv4.5" { if i % 2 == 0 { format!("sq0\t{s}\tv{i}\tA\t<DEL>\t.\t.\tSVLEN={span}\tGT\t0/1\t0/0\n") } else { format!("sq0\t{s}\tv{i}\tA\t<*>\t.\t.\t.\tGT:LEN\t0/0:{}\t0/0:{span}\n", span / 2) } }
                    else { format!("sq0\t{s}\tv{i}\tA\t<DEL>\t.\t.\tEND={}\tGT\t0/1\t0/0\n", s + span - 1) };
                text.push_str(&line);
            }
            for i in 0..300 { text.push_str(&format!("sq2\t{}\tw{i}\tACGTA\tA\t.\t.\t.\tGT\t0/1\t1/1\n", 1 + i * 7)); }
            let mut rd = vcf::io::Reader::new(text.as_bytes()); let header = rd.read_header().map_err(|e| format!("{fmt} header: {e:?}"))?;
            let recs: Vec<vcf::variant::RecordBuf> = rd.record_bufs(&header).collect::<Result<_, _>>().map_err(|e| format!("{fmt}: {e}"))?;
            let vpath = dir.join(format!("{fileformat}.vcf.gz")); let bpath = dir.join(format!("{fileformat}.bcf"));
            { let mut w = vcf::io::Writer::new(noodles_bgzf::io::Writer::new(std::fs::File::create(&vpath).map_err(|e| format!("create: {e}"))?)); w.write_header(&header).map_err(|e| format!("write_header: {e}"))?; for r in &recs { w.write_variant_record(&header, r).map_err(|e| format!("vcf write: {e}"))?; } w.get_mut().try_finish().map_err(|e| format!("finish: {e}"))?; }
            let bcf_ok = (|| -> Result<(), String> { let mut w = noodles_bcf::io::Writer::new(std::fs::File::create(&bpath).map_err(|e| format!("create: {e}"))?); w.write_header(&header).map_err(|e| format!("write_header: {e}"))?; for r in &recs { w.write_variant_record(&header, r).map_err(|e| format!("bcf write: {e}"))?; } w.try_finish().map_err(|e| format!("finish: {e}")) })();
            let key = |r: &vcf::variant::RecordBuf| r.ids().as_ref().iter().next().cloned().unwrap_or_default();
            let mut vtruth: BTreeMap<String, (usize, usize)> = BTreeMap::new();
            for (i, (s, span)) in feats.iter().enumerate() { vtruth.insert(format!("v{i}"), (*s, s + span - 1)); }
            for i in 0..300 { vtruth.insert(format!("w{i}"), (1 + i * 7, 1 + i * 7 + 4)); }
            let tbi = vcf::fs::index(&vpath).map_err(|e| format!("vcf::fs::index ({fmt}): {e}"))?;
            noodles_tabix::fs::write(dir.join("v.tbi"), &tbi).map_err(|e| format!("tabix write: {e}"))?; let tbi2 = noodles_tabix::fs::read(dir.join("v.tbi")).map_err(|e| format!("tabix read: {e}"))?; same_index!("tabix", &tbi, &tbi2, true, idx_fails.borrow_mut());
            let mut check = |what: &str, refname: &str, region: &noodles_core::Region, got: Result<Vec<String>, String>| {
                // the spans come from the generator, not from the library's variant_end
                let expected: Vec<String> = recs.iter().filter(|r| r.reference_sequence_name() == refname).filter_map(|r| { let k = key(r); let (s, e) = *vtruth.get(&k)?; if region.interval().intersects((p(s)..=p(e)).into()) { Some(k) } else { None } }).collect();
                queries += 1;
                match got { Ok(got) => if got != expected { let missing: Vec<&String> = expected.iter().filter(|x| !got.contains(x)).collect(); let extra: Vec<&String> = got.iter().filter(|x| !expected.contains(x)).collect();
                        let w = if !missing.is_empty() { "omits records a scan keeps" } else if !extra.is_empty() { "returns records a scan drops" } else { "returns the records in a different order or more than once" };
                        mism.entry(format!("{fmt} + {what}]: {w}")).or_default().push(format!("{region}: missing {missing:?} extra {extra:?} got {}", got.len())); },
                    Err(e) => { fails.entry(format!("{fmt} {what} error")).or_insert_with(|| format!("index query [{fmt} + {what}]: region {region} fails: {e}")); } }
            };
            for refname in ["sq0", "empty", "sq2"] { for region in regions_for(refname) {
                if refname != "sq0" && region.interval().start().map(usize::from).unwrap_or(1) > 100_000 { continue; }
                if refname == "empty" { continue; }   // tabix only knows the names that occur in the file
                for (iname, ix) in [("tabix in memory", &tbi), ("tabix from file", &tbi2)] {
                    let got = (|| -> Result<Vec<String>, String> { let mut rd = vcf::io::Reader::new(noodles_bgzf::io::Reader::new(std::fs::File::open(&vpath).map_err(|e| format!("open: {e}"))?)); let h = rd.read_header().map_err(|e| format!("read_header: {e}"))?; let q = rd.query(&h, ix, &region).map_err(|e| format!("query: {e}"))?; q.records().map(|r| r.map(|r| { use vcf::variant::Record as _; use vcf::variant::record::Ids as _; r.ids().iter().next().map(|s| s.to_string()).unwrap_or_default() })).collect::<Result<Vec<_>, _>>().map_err(|e| format!("record: {e}")) })();
                    check(iname, refname, &region, got);
                }
            } }
            if let Err(e) = &bcf_ok { if fileformat == "VCFv4.3" { fails.entry("bcf write".into()).or_insert_with(|| format!("index query [BCF]: writing the BCF file fails: {e}")); } continue; }
            let cix = noodles_bcf::fs::index(&bpath).map_err(|e| format!("bcf::fs::index ({fmt}): {e}"))?;
            csi::fs::write(dir.join("b.csi"), &cix).map_err(|e| format!("csi write: {e}"))?; let cix2 = csi::fs::read(dir.join("b.csi")).map_err(|e| format!("csi read: {e}"))?; same_index!("CSI of a BCF", &cix, &cix2, false, idx_fails.borrow_mut());
            for refname in ["sq0", "empty", "sq2"] { for region in regions_for(refname) {
                if refname != "sq0" && region.interval().start().map(usize::from).unwrap_or(1) > 100_000 { continue; }
                for (iname, ix) in [("BCF CSI in memory", &cix), ("BCF CSI from file", &cix2)] {
                    let got = (|| -> Result<Vec<String>, String> { let mut rd = noodles_bcf::io::Reader::new(std::fs::File::open(&bpath).map_err(|e| format!("open: {e}"))?); let h = rd.read_header().map_err(|e| format!("read_header: {e}"))?; let q = rd.query(&h, ix, &region).map_err(|e| format!("query: {e}"))?; q.records().map(|r| r.map(|r| { use vcf::variant::Record as _; use vcf::variant::record::Ids as _; r.ids().iter().next().map(|s| s.to_string()).unwrap_or_default() })).collect::<Result<Vec<_>, _>>().map_err(|e| format!("record: {e}")) })();
                    check(iname, refname, &region, got);
                }
            } }
        }
        Ok(())
    }));
    match r { Err(_) => { fails.entry("vcf panic".into()).or_insert_with(|| "index query [VCF/BCF]: PANICS".into()); } Ok(Err(e)) => { fails.entry("vcf setup".into()).or_insert_with(|| format!("index query [VCF/BCF]: {e}")); } Ok(Ok(())) => {} }
    let _ = std::panic::take_hook();
    let _ = std::fs::remove_dir_all(&dir);
    for (k, v) in &mism { let mut h: u64 = 0xcbf29ce484222325; for b in v.join("|").bytes() { h ^= b as u64; h = h.wrapping_mul(0x100000001b3); }
        fails.insert(format!("m {k}"), format!("index query [{k} in {} region(s), digest {:08x}; first: {}", v.len(), h as u32, &v[0][..v[0].len().min(160)])); }
    for (k, v) in idx_fails.borrow().iter() { fails.entry(k.clone()).or_insert_with(|| v.clone()); }
    // ---- optimize_chunks / merge_chunks (C17 sentence 1, second half), exhaustively on small lists — ALSO lists no noodles indexer produces
    // (nested and overlapping chunks, as foreign indexes hold): every unit [v, v+1) of the file covered by a chunk that ends after min_offset
    // stays covered, nothing uncovered becomes covered, and the result is sorted and pairwise disjoint ----
    {
        use csi::binning_index::{index::reference_sequence::bin::Chunk, optimize_chunks};
        let vp = |n: u64| noodles_bgzf::VirtualPosition::from(n);
        let all: Vec<(u64, u64)> = (0..6u64).flat_map(|a| (a + 1..=6).map(move |b| (a, b))).collect();
        let mut lists: Vec<Vec<(u64, u64)>> = vec![vec![]];
        for len in 1..=3usize { let mut idx = vec![0usize; len]; loop { lists.push(idx.iter().map(|&i| all[i]).collect()); let mut k = 0; loop { idx[k] += 1; if idx[k] < all.len() { break; } idx[k] = 0; k += 1; if k == len { break; } } if k == len { break; } } }
        let mut bad: Option<String> = None; let mut n_cases = 0u64;
        'outer: for list in &lists { let chunks: Vec<Chunk> = list.iter().map(|&(a, b)| Chunk::new(vp(a), vp(b))).collect();
            for mo in 0..=6u64 { n_cases += 1;
                let out = match std::panic::catch_unwind(|| optimize_chunks(&chunks, vp(mo))) { Ok(o) => o, Err(_) => { bad = Some(format!("PANICS on {list:?} with min_offset {mo}")); break 'outer; } };
                let out: Vec<(u64, u64)> = out.iter().map(|c| (u64::from(c.start()), u64::from(c.end()))).collect();
                for v in 0..6u64 { let need = list.iter().any(|&(a, b)| b > mo && a <= v && v < b); let may = list.iter().any(|&(a, b)| a <= v && v < b); let has = out.iter().any(|&(a, b)| a <= v && v < b);
                    if need && !has { bad = Some(format!("chunks {list:?} with min_offset {mo} give {out:?}: [{v}, {}) was covered by a retained chunk and is not covered any more", v + 1)); break 'outer; }
                    if has && !may { bad = Some(format!("chunks {list:?} with min_offset {mo} give {out:?}: [{v}, {}) is covered by no input chunk", v + 1)); break 'outer; } }
                if out.windows(2).any(|w| w[0].1 >= w[1].0) || out.iter().any(|&(a, b)| a >= b) { bad = Some(format!("chunks {list:?} with min_offset {mo} give {out:?}: not sorted and pairwise disjoint")); break 'outer; }
            } }
        // Bin::add_chunk ("adds or merges a chunk"), any order of arrival: the bin covers everything the chunks given to it cover
        let mut bad_add: Option<String> = None;
        'add: for list in &lists { n_cases += 1;
            let mut bin = csi::binning_index::index::reference_sequence::Bin::new(Vec::new());
            for &(a, b) in list { bin.add_chunk(Chunk::new(vp(a), vp(b))); }
            let out: Vec<(u64, u64)> = bin.chunks().iter().map(|c| (u64::from(c.start()), u64::from(c.end()))).collect();
            for v in 0..6u64 { let want = list.iter().any(|&(a, b)| a <= v && v < b); let has = out.iter().any(|&(a, b)| a <= v && v < b);
                if want && !has { bad_add = Some(format!("chunks {list:?} added one by one give {out:?}: [{v}, {}) was covered by a chunk and is not covered by the bin", v + 1)); break 'add; } } }   // (covering MORE, the hull of two merged chunks, only costs reading)
        if let Some(b) = bad_add { fails.entry("add_chunk".into()).or_insert_with(|| format!("Bin::add_chunk: {b}")); }
        queries += n_cases;
        if let Some(b) = bad { fails.entry("optimize_chunks".into()).or_insert_with(|| format!("optimize_chunks: {b}")); }
    }
    if queries < 200 && fails.is_empty() { return Err(format!("UNDECIDED: only {queries} queries ran")); }
    if fails.is_empty() { Ok(format!("\"queries\":{queries},\"features_per_file\":{}", feats.len() + 300)) }
    else { Err(format!("FAILURES\n{}", fails.values().cloned().collect::<Vec<_>>().join("\n"))) }
}

// ---------------------------------------------------------------------------------------------------------------------
// C20 BOUNDED-NATIVE stand-in: for every (format, compression) the generic alignment / variant writer supports, what it
// writes must be recognised by the generic reader (given NO hint) as that format and read back as the records written;
// and piping the generic reader of each format into the generic writer of each other format must preserve every record
// at the SAM / VCF data-model level.  Record sets: empty, header only, and a varied set.  Never counted as proved.
fn util_conversions(_tier: &str) -> Result<String, String> {
    use noodles_sam as sam;
    use noodles_vcf as vcf;
    use noodles_util::{alignment, variant};
    use std::collections::BTreeMap;
    let mut fails: BTreeMap<String, String> = BTreeMap::new();
    let mut cases = 0u64;
    std::panic::set_hook(Box::new(|_| {}));
    // ------------------------------------------------ alignment ------------------------------------------------
    let refseq: Vec<u8> = (0..2000).map(|i| b"ACGT"[((i as u64).wrapping_mul(2654435761) >> 7) as usize % 4]).collect();
    let repo = noodles_fasta::Repository::new(vec![noodles_fasta::Record::new(noodles_fasta::record::Definition::new("sq0", None), noodles_fasta::record::Sequence::from(refseq.clone())), noodles_fasta::Record::new(noodles_fasta::record::Definition::new("sq1", None), noodles_fasta::record::Sequence::from(refseq.clone()))]);
    let rb = |pos: usize, n: usize| String::from_utf8(refseq[pos - 1..pos - 1 + n].to_vec()).unwrap();
    let header_text = "@HD\tVN:1.6\tSO:coordinate\n@SQ\tSN:sq0\tLN:2000\n@SQ\tSN:sq1\tLN:2000\n@RG\tID:rg0\n@PG\tID:pg\tPN:x\n@CO\tcomment\n";
    let body = format!("a1\t99\tsq0\t5\t30\t20M\t=\t60\t75\t{}\t{}\tRG:Z:rg0\tNM:i:0\na2\t0\tsq0\t9\t31\t5M2I13M\t*\t0\t0\t{}GG{}\t{}\tXB:B:s,-1,300\na1\t147\tsq0\t60\t30\t20M\t=\t5\t-75\t{}\t{}\tRG:Z:rg0\na3\t65\tsq0\t100\t9\t10M\tsq1\t7\t0\t{}\t{}\na3\t129\tsq1\t7\t9\t10M\tsq0\t100\t0\t{}\t{}\tXA:A:c\nu1\t4\t*\t0\t0\t*\t*\t0\t0\tACGTN\t{}\tXZ:Z:x y\n",
        rb(5, 20), "I".repeat(20), rb(9, 5), rb(14, 13), "H".repeat(20), rb(60, 20), "G".repeat(20), rb(100, 10), "F".repeat(10), rb(7, 10), "E".repeat(10), "DDDDD");
    let header: sam::Header = header_text.parse().map_err(|e| format!("header: {e}"))?;
    let all: Vec<sam::alignment::RecordBuf> = sam::io::Reader::new(body.as_bytes()).record_bufs(&header).collect::<Result<_, _>>().map_err(|e| format!("sam: {e}"))?;
    let afmts: Vec<(&str, alignment::io::Format, Option<alignment::io::CompressionMethod>)> = vec![("SAM", alignment::io::Format::Sam, None), ("SAM.gz", alignment::io::Format::Sam, Some(alignment::io::CompressionMethod::Bgzf)), ("BAM", alignment::io::Format::Bam, Some(alignment::io::CompressionMethod::Bgzf)), ("BAM (uncompressed)", alignment::io::Format::Bam, None), ("CRAM", alignment::io::Format::Cram, None)];
    let awrite = |fmt: alignment::io::Format, cm: Option<alignment::io::CompressionMethod>, recs: &[sam::alignment::RecordBuf], with_header: bool| -> Result<Vec<u8>, String> {
        let mut buf = Vec::new();
        { let mut w = alignment::io::writer::Builder::default().set_format(fmt).set_compression_method(cm).set_reference_sequence_repository(repo.clone()).build_from_writer(&mut buf).map_err(|e| format!("build writer: {e}"))?;
          if with_header { w.write_header(&header).map_err(|e| format!("write_header: {e}"))?; for r in recs { w.write_record(&header, r).map_err(|e| format!("write_record: {e}"))?; } w.finish(&header).map_err(|e| format!("finish: {e}"))?; } }
        Ok(buf)
    };
    let aread = |data: &[u8]| -> Result<(sam::Header, Vec<sam::alignment::RecordBuf>), String> {
        let mut rd = alignment::io::reader::Builder::default().set_reference_sequence_repository(repo.clone()).build_from_reader(std::io::Cursor::new(data.to_vec())).map_err(|e| format!("the generic reader does not recognise the stream ({e})"))?;
        let h = rd.read_header().map_err(|e| format!("the generic reader fails on the header ({e})"))?;
        let mut out = Vec::new();
        { // the record-by-record API must agree with the iterator
          let mut rd2 = alignment::io::reader::Builder::default().set_reference_sequence_repository(repo.clone()).build_from_reader(std::io::Cursor::new(data.to_vec())).map_err(|e| format!("{e}"))?; let h2 = rd2.read_header().map_err(|e| format!("{e}"))?; let mut rec = alignment::Record::default(); let mut v2 = Vec::new();
          while rd2.read_record(&h2, &mut rec).map_err(|e| format!("read_record fails on record {} ({e})", v2.len()))? != 0 { v2.push(sam::alignment::RecordBuf::try_from_alignment_record(&h2, &rec).map_err(|e| format!("read_record: record {} does not convert ({e})", v2.len()))?); }
          let v1: Vec<sam::alignment::RecordBuf> = { let mut o = Vec::new(); for r in rd.records(&h) { let r = r.map_err(|e| format!("the generic reader fails on record {} ({e})", o.len()))?; o.push(sam::alignment::RecordBuf::try_from_alignment_record(&h, r.as_ref()).map_err(|e| format!("record {} does not convert ({e})", o.len()))?); } o };
          if v1.len() != v2.len() { return Err(format!("read_record yields {} records, records() {}", v2.len(), v1.len())); }
          for (i, (a, b)) in v1.iter().zip(v2.iter()).enumerate() { if a != b { return Err(format!("read_record and records() disagree on record {i}")); } }
          return Ok((h, v1)); }
        #[allow(unreachable_code)]
        for r in rd.records(&h) { let r = r.map_err(|e| format!("the generic reader fails on record {} ({e})", out.len()))?; out.push(sam::alignment::RecordBuf::try_from_alignment_record(&h, r.as_ref()).map_err(|e| format!("record {} does not convert ({e})", out.len()))?); }
        Ok((h, out))
    };
    let adiff = |a: &sam::alignment::RecordBuf, b: &sam::alignment::RecordBuf, cram: bool| -> Vec<&'static str> {
        let mut d = Vec::new();
        if a.name() != b.name() { d.push("name"); } if a.flags() != b.flags() { d.push("flags"); } if a.reference_sequence_id() != b.reference_sequence_id() { d.push("reference"); } if a.alignment_start() != b.alignment_start() { d.push("position"); }
        if a.mapping_quality() != b.mapping_quality() && !(cram && a.flags().is_unmapped()) { d.push("mapq"); } if a.cigar() != b.cigar() { d.push("cigar"); }
        if a.mate_reference_sequence_id() != b.mate_reference_sequence_id() { d.push("mate reference"); } if a.mate_alignment_start() != b.mate_alignment_start() { d.push("mate position"); } if a.template_length() != b.template_length() && !(cram && a.reference_sequence_id() != a.mate_reference_sequence_id()) /* F42, reported by bounded-cram-roundtrip */ { d.push("template length"); }
        if !a.sequence().as_ref().eq_ignore_ascii_case(b.sequence().as_ref()) { d.push("sequence"); } if a.quality_scores() != b.quality_scores() { d.push("quality scores"); }
        let tags = |r: &sam::alignment::RecordBuf| { use sam::alignment::record_buf::data::field::{value::Array, Value}; let mut v: Vec<String> = r.data().iter().map(|(t, v)| match v { Value::Array(Array::Int8(x)) => format!("{t:?}=B{:?}", x.iter().map(|&n| i64::from(n)).collect::<Vec<_>>()), Value::Array(Array::UInt8(x)) => format!("{t:?}=B{:?}", x.iter().map(|&n| i64::from(n)).collect::<Vec<_>>()), Value::Array(Array::Int16(x)) => format!("{t:?}=B{:?}", x.iter().map(|&n| i64::from(n)).collect::<Vec<_>>()), Value::Array(Array::UInt16(x)) => format!("{t:?}=B{:?}", x.iter().map(|&n| i64::from(n)).collect::<Vec<_>>()), Value::Array(Array::Int32(x)) => format!("{t:?}=B{:?}", x.iter().map(|&n| i64::from(n)).collect::<Vec<_>>()), Value::Array(Array::UInt32(x)) => format!("{t:?}=B{:?}", x.iter().map(|&n| i64::from(n)).collect::<Vec<_>>()), v => match v.as_int() { Some(n) => format!("{t:?}=i{n}"), None => format!("{t:?}={v:?}") } }).collect(); v.sort(); v };
        if tags(a) != tags(b) { d.push("data"); }
        d
    };
    let detect = |data: &[u8]| -> &'static str { if data.starts_with(b"BAM\x01") { "BAM (uncompressed)" } else if data.starts_with(b"CRAM") { "CRAM" } else if data.starts_with(&[0x1f, 0x8b]) { "bgzf" } else { "SAM" } };
    let sets: Vec<(&str, Vec<sam::alignment::RecordBuf>, bool)> = vec![("varied set", all.clone(), true), ("header only", vec![], true)];
    for (fname, fmt, cm) in &afmts { for (sname, recs, with_header) in &sets {
        cases += 1;
        let r = std::panic::catch_unwind(std::panic::AssertUnwindSafe(|| -> Result<(), String> {
            let data = awrite(*fmt, *cm, recs, *with_header).map_err(|e| format!("the generic writer fails ({e})"))?;
            let want = match *fname { "SAM.gz" | "BAM" => "bgzf", x => x };
            if detect(&data) != want { return Err(format!("the stream starts like {} not {want}", detect(&data))); }
            let (_, back) = aread(&data)?;
            if back.len() != recs.len() { return Err(format!("{} records read back, {} written", back.len(), recs.len())); }
            for (i, (a, b)) in recs.iter().zip(back.iter()).enumerate() { let d = adiff(a, b, *fname == "CRAM"); if !d.is_empty() { return Err(format!("record {i} ({:?}) reads back different in: {}", a.name().map(|n| n.to_string()), d.join(", "))); } }
            Ok(())
        }));
        match r { Err(_) => { fails.entry(format!("a {fname} {sname} panic")).or_insert_with(|| format!("generic alignment io [{fname}, {sname}]: PANICS")); } Ok(Err(e)) => { fails.entry(format!("a {fname} {sname} {}", &e[..e.len().min(30)])).or_insert_with(|| format!("generic alignment io [{fname}, {sname}]: {e}")); } Ok(Ok(())) => {} }
    } }
    // empty files: an EMPTY header and no records (F63)
    for (fname, fmt, cm) in &afmts { cases += 1;
        let r = std::panic::catch_unwind(std::panic::AssertUnwindSafe(|| -> Result<(), String> {
            let empty = sam::Header::default(); let mut buf = Vec::new();
            { let mut w = alignment::io::writer::Builder::default().set_format(*fmt).set_compression_method(*cm).set_reference_sequence_repository(repo.clone()).build_from_writer(&mut buf).map_err(|e| format!("build writer: {e}"))?; w.write_header(&empty).map_err(|e| format!("write_header: {e}"))?; w.finish(&empty).map_err(|e| format!("finish: {e}"))?; }
            let (h, back) = aread(&buf)?;
            if !h.reference_sequences().is_empty() || !back.is_empty() { return Err(format!("an empty file reads back with {} reference sequences and {} records", h.reference_sequences().len(), back.len())); }
            Ok(()) }));
        match r { Err(_) => { fails.entry(format!("a {fname} empty panic")).or_insert_with(|| format!("generic alignment io [{fname}, empty header and no records]: PANICS")); } Ok(Err(e)) => { fails.entry(format!("a {fname} empty")).or_insert_with(|| format!("generic alignment io [{fname}, empty header and no records]: {e}")); } Ok(Ok(())) => {} }
    }
    // conversions: reader of A piped into writer of B
    for by_record in [false, true] { for (an, af, ac) in &afmts { for (bn, bf, bc) in &afmts { if an == bn { continue; }
        let api = if by_record { "read_record" } else { "records()" };
        cases += 1;
        let r = std::panic::catch_unwind(std::panic::AssertUnwindSafe(|| -> Result<(), String> {
            let src = awrite(*af, *ac, &all, true).map_err(|e| format!("writing the source fails ({e})"))?;
            let mut rd = alignment::io::reader::Builder::default().set_reference_sequence_repository(repo.clone()).build_from_reader(std::io::Cursor::new(src)).map_err(|e| format!("source not recognised ({e})"))?;
            let h = rd.read_header().map_err(|e| format!("source header ({e})"))?;
            let mut buf = Vec::new();
            { let mut w = alignment::io::writer::Builder::default().set_format(*bf).set_compression_method(*bc).set_reference_sequence_repository(repo.clone()).build_from_writer(&mut buf).map_err(|e| format!("build writer: {e}"))?;
              w.write_header(&h).map_err(|e| format!("write_header: {e}"))?;
              if by_record { let mut rec = alignment::Record::default(); while rd.read_record(&h, &mut rec).map_err(|e| format!("reading the source ({e})"))? != 0 { w.write_record(&h, &rec).map_err(|e| format!("writing a record of the source ({e})"))?; } }
              else { for r in rd.records(&h) { let r = r.map_err(|e| format!("reading the source ({e})"))?; w.write_record(&h, &r).map_err(|e| format!("writing a record of the source ({e})"))?; } }
              w.finish(&h).map_err(|e| format!("finish: {e}"))?; }
            let (_, back) = aread(&buf)?;
            if back.len() != all.len() { return Err(format!("{} records after the conversion, {} before", back.len(), all.len())); }
            for (i, (a, b)) in all.iter().zip(back.iter()).enumerate() { let d = adiff(a, b, *an == "CRAM" || *bn == "CRAM"); if !d.is_empty() { return Err(format!("record {i} ({:?}) differs after the conversion in: {}", a.name().map(|n| n.to_string()), d.join(", "))); } }
            Ok(())
        }));
        match r { Err(_) => { fails.entry(format!("conv {an}->{bn} {api} panic")).or_insert_with(|| format!("alignment conversion [{an} -> {bn}, {api}]: PANICS")); } Ok(Err(e)) => { fails.entry(format!("conv {an}->{bn} {api} {}", &e[..e.len().min(30)])).or_insert_with(|| format!("alignment conversion [{an} -> {bn}, {api}]: {e}")); } Ok(Ok(())) => {} }
    } } }
    // ------------------------------------------------ variant ------------------------------------------------
    let vtext = "##fileformat=VCFv4.3\n##INFO=<ID=DP,Number=1,Type=Integer,Description=\"d\">\n##INFO=<ID=AF,Number=A,Type=Float,Description=\"a\">\n##INFO=<ID=DB,Number=0,Type=Flag,Description=\"f\">\n##INFO=<ID=XS,Number=1,Type=String,Description=\"s\">\n##FILTER=<ID=PASS,Description=\"All filters passed\">\n##FILTER=<ID=q10,Description=\"q\">\n##FORMAT=<ID=GT,Number=1,Type=String,Description=\"g\">\n##FORMAT=<ID=DP,Number=1,Type=Integer,Description=\"d\">\n##FORMAT=<ID=XA,Number=.,Type=Integer,Description=\"a\">\n##contig=<ID=sq0,length=2000>\n##contig=<ID=sq1,length=2000>\n#CHROM\tPOS\tID\tREF\tALT\tQUAL\tFILTER\tINFO\tFORMAT\ts0\ts1\nsq0\t10\trs1;rs2\tA\tC,G\t30.5\tPASS\tDP=14;AF=0.5,0.25;DB;XS=%2541 50%25 a%3Bb%2C%3D\tGT:DP:XA\t0|1:10:5,3,2\t1/2:.:70000\nsq0\t20\t.\tAC\tA\t.\tq10\t.\tGT\t./.\t0\nsq1\t5\t.\tN\t<DEL>\t1\t.\tDP=-200\tDP\t1\t-200\nsq1\t7\t.\tA\tC\t.\t.\tDP=3\tGT\t0/1\t1/1\nsq1\t9\tabcdefghijklmno\tACGTACGTACGTACG\tA\t.\t.\tXS=123456789012345\tXA\t1,2,3,4,5,6,7,8,9,10,11,12,13,14,15\t.\nsq1\t11\tabcdefghijklmnop\tA\tC\t.\t.\tXS=12345678901234\tGT\t0/1\t1/1\n";
    let vheader = vcf::io::Reader::new(vtext.as_bytes()).read_header().map_err(|e| format!("vcf header: {e}"))?;
    let vall: Vec<vcf::variant::RecordBuf> = { let mut rd = vcf::io::Reader::new(vtext.as_bytes()); let h = rd.read_header().map_err(|e| format!("{e}"))?; rd.record_bufs(&h).collect::<Result<_, _>>().map_err(|e| format!("vcf: {e}"))? };
    // sites-only records (NO FORMAT keys, no sample values) between records that have them: the record at sq1:7 and one more at the end
    // (only between BCF and BCF: VCF text cannot hold a record without genotype columns in a file that declares samples)
    let vsites: Vec<vcf::variant::RecordBuf> = { let mut v = vall.clone(); for r in v.iter_mut() { if r.variant_start().map(usize::from) == Some(7) { *r.samples_mut() = Default::default(); } } let mut last = v[0].clone(); *last.samples_mut() = Default::default(); *last.reference_sequence_name_mut() = String::from("sq1"); *last.variant_start_mut() = noodles_core::Position::new(13); v.push(last); v };
    let is_bcf = |f: &variant::io::Format| matches!(f, variant::io::Format::Bcf);
    let vfmts: Vec<(&str, variant::io::Format, Option<variant::io::CompressionMethod>)> = vec![("VCF", variant::io::Format::Vcf, None), ("VCF.gz", variant::io::Format::Vcf, Some(variant::io::CompressionMethod::Bgzf)), ("BCF", variant::io::Format::Bcf, Some(variant::io::CompressionMethod::Bgzf)), ("BCF (uncompressed)", variant::io::Format::Bcf, None)];
    let vnorm = |r: &vcf::variant::RecordBuf| -> vcf::variant::RecordBuf { let mut r = r.clone(); let keys = r.samples().keys().clone(); let n = keys.as_ref().len(); if n == 0 { /* no FORMAT keys: the number of (empty) sample rows carries no data */ *r.samples_mut() = Default::default(); return r; } let vals: Vec<Vec<Option<vcf::variant::record_buf::samples::sample::Value>>> = r.samples().values().map(|s| { let mut v = s.values().to_vec(); v.resize(n, None);
            // (a vector holding ONE missing element and a missing value are the same VCF datum: both are written ".")
            for x in v.iter_mut() { use vcf::variant::record_buf::samples::sample::value::Array as A; use vcf::variant::record_buf::samples::sample::Value as V; let one_missing = match x { Some(V::Array(A::Integer(a))) => a.len() == 1 && a[0].is_none(), Some(V::Array(A::Float(a))) => a.len() == 1 && a[0].is_none(), Some(V::Array(A::Character(a))) => a.len() == 1 && a[0].is_none(), Some(V::Array(A::String(a))) => a.len() == 1 && a[0].is_none(), _ => false }; if one_missing { *x = None; } }
            v }).collect(); *r.samples_mut() = vcf::variant::record_buf::Samples::new(keys, vals); r };
    let vwrite = |fmt: variant::io::Format, cm: Option<variant::io::CompressionMethod>, h: &vcf::Header, recs: &mut dyn Iterator<Item = Result<Box<dyn vcf::variant::Record>, String>>| -> Result<Vec<u8>, String> {
        let mut buf = Vec::new();
        { let mut w = variant::io::writer::Builder::default().set_format(fmt).set_compression_method(cm).build_from_writer(&mut buf); w.write_header(h).map_err(|e| format!("write_header: {e}"))?; for r in recs { let r = r?; w.write_record(h, r.as_ref()).map_err(|e| format!("write_record: {e}"))?; } }
        Ok(buf)
    };
    let vread = |data: &[u8]| -> Result<(vcf::Header, Vec<vcf::variant::RecordBuf>), String> {
        let mut rd = variant::io::reader::Builder::default().build_from_reader(std::io::Cursor::new(data.to_vec())).map_err(|e| format!("the generic reader does not recognise the stream ({e})"))?;
        let h = rd.read_header().map_err(|e| format!("the generic reader fails on the header ({e})"))?;
        { let mut rd2 = variant::io::reader::Builder::default().build_from_reader(std::io::Cursor::new(data.to_vec())).map_err(|e| format!("{e}"))?; let h2 = rd2.read_header().map_err(|e| format!("{e}"))?; let mut rec = variant::Record::default(); let mut v2 = Vec::new();
          while rd2.read_record(&mut rec).map_err(|e| format!("read_record fails on record {} ({e})", v2.len()))? != 0 { v2.push(vcf::variant::RecordBuf::try_from_variant_record(&h2, &rec).map_err(|e| format!("read_record: record {} does not convert ({e})", v2.len()))?); }
          let mut v1 = Vec::new(); for r in rd.records(&h) { let r = r.map_err(|e| format!("the generic reader fails on record {} ({e})", v1.len()))?; v1.push(vcf::variant::RecordBuf::try_from_variant_record(&h, r.as_ref()).map_err(|e| format!("record {} does not convert ({e})", v1.len()))?); }
          if v1.len() != v2.len() { return Err(format!("read_record yields {} records, records() {}", v2.len(), v1.len())); }
          for (i, (a, b)) in v1.iter().zip(v2.iter()).enumerate() { if a != b { return Err(format!("read_record and records() disagree on record {i}")); } }
          return Ok((h, v1)); }
        #[allow(unreachable_code)]
        let mut out = Vec::new();
        for r in rd.records(&h) { let r = r.map_err(|e| format!("the generic reader fails on record {} ({e})", out.len()))?; out.push(vcf::variant::RecordBuf::try_from_variant_record(&h, r.as_ref()).map_err(|e| format!("record {} does not convert ({e})", out.len()))?); }
        Ok((h, out))
    };
    let vdetect = |data: &[u8]| -> &'static str { if data.starts_with(b"BCF") { "BCF (uncompressed)" } else if data.starts_with(&[0x1f, 0x8b]) { "bgzf" } else { "VCF" } };
    for (fname, fmt, cm) in &vfmts { for (sname, recs) in [("varied set", if is_bcf(fmt) { vsites.clone() } else { vall.clone() }), ("header only", vec![])] {
        cases += 1;
        let r = std::panic::catch_unwind(std::panic::AssertUnwindSafe(|| -> Result<(), String> {
            let data = vwrite(*fmt, *cm, &vheader, &mut recs.iter().map(|r| Ok(Box::new(r.clone()) as Box<dyn vcf::variant::Record>))).map_err(|e| format!("the generic writer fails ({e})"))?;
            let want = match *fname { "VCF.gz" | "BCF" => "bgzf", x => x };
            if vdetect(&data) != want { return Err(format!("the stream starts like {} not {want}", vdetect(&data))); }
            let (_, back) = vread(&data)?;
            if back.len() != recs.len() { return Err(format!("{} records read back, {} written", back.len(), recs.len())); }
            for (i, (a, b)) in recs.iter().zip(back.iter()).enumerate() { if vnorm(a) != vnorm(b) { return Err(format!("record {i} reads back different: wrote {:?}, read {:?}", vnorm(a).samples(), vnorm(b).samples())); } }
            Ok(())
        }));
        match r { Err(_) => { fails.entry(format!("v {fname} {sname} panic")).or_insert_with(|| format!("generic variant io [{fname}, {sname}]: PANICS")); } Ok(Err(e)) => { fails.entry(format!("v {fname} {sname} {}", &e[..e.len().min(30)])).or_insert_with(|| format!("generic variant io [{fname}, {sname}]: {e}")); } Ok(Ok(())) => {} }
    } }
    for by_record in [false, true] { for (an, af, ac) in &vfmts { for (bn, bf, bc) in &vfmts { if an == bn { continue; }
        let api = if by_record { "read_record" } else { "records()" };
        cases += 1;
        let vall = if is_bcf(af) && is_bcf(bf) { &vsites } else { &vall };
        let r = std::panic::catch_unwind(std::panic::AssertUnwindSafe(|| -> Result<(), String> {
            let src = vwrite(*af, *ac, &vheader, &mut vall.iter().map(|r| Ok(Box::new(r.clone()) as Box<dyn vcf::variant::Record>))).map_err(|e| format!("writing the source fails ({e})"))?;
            let mut rd = variant::io::reader::Builder::default().build_from_reader(std::io::Cursor::new(src)).map_err(|e| format!("source not recognised ({e})"))?;
            let h = rd.read_header().map_err(|e| format!("source header ({e})"))?;
            let buf = if by_record { let mut v: Vec<Result<Box<dyn vcf::variant::Record>, String>> = Vec::new(); loop { let mut rec = variant::Record::default(); match rd.read_record(&mut rec) { Ok(0) => break, Ok(_) => v.push(Ok(Box::new(rec))), Err(e) => { v.push(Err(format!("reading the source ({e})"))); break; } } } vwrite(*bf, *bc, &h, &mut v.into_iter()) } else { vwrite(*bf, *bc, &h, &mut rd.records(&h).map(|r| r.map_err(|e| format!("reading the source ({e})")))) }.map_err(|e| format!("the conversion fails ({e})"))?;
            let (_, back) = vread(&buf)?;
            if back.len() != vall.len() { return Err(format!("{} records after the conversion, {} before", back.len(), vall.len())); }
            for (i, (a, b)) in vall.iter().zip(back.iter()).enumerate() { if vnorm(a) != vnorm(b) { return Err(format!("record {i} differs after the conversion")); } }
            Ok(())
        }));
        match r { Err(_) => { fails.entry(format!("vconv {an}->{bn} {api} panic")).or_insert_with(|| format!("variant conversion [{an} -> {bn}, {api}]: PANICS")); } Ok(Err(e)) => { fails.entry(format!("vconv {an}->{bn} {api} {}", &e[..e.len().min(30)])).or_insert_with(|| format!("variant conversion [{an} -> {bn}, {api}]: {e}")); } Ok(Ok(())) => {} }
    } } }
    let _ = std::panic::take_hook();
    if fails.is_empty() { Ok(format!("\"cases\":{cases}")) } else { Err(format!("FAILURES\n{}", fails.values().cloned().collect::<Vec<_>>().join("\n"))) }
}
