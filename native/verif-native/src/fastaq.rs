//! C11 BOUNDED-NATIVE stand-in (never counted as proved): FASTA files of many shapes -> fasta::io::Indexer -> Reader::query through
//! BufReaders of several capacities, compared with a naive whole-file parse (the generator's own sequences); ragged files must be rejected or
//! indexed correctly; FASTA / FASTQ writer -> reader round trips at several line widths.
use std::collections::BTreeMap;
use std::io::{BufReader, Cursor};
use std::num::NonZero;

fn bases(n: usize, salt: usize) -> Vec<u8> { (0..n).map(|i| b"ACGTNacgtRYKM"[(i * 7 + salt * 3 + i / 5) % 13]).collect() }

fn render(seqs: &[(String, Option<String>, Vec<u8>)], width: usize, eol: &str, final_newline: bool, trailing_blank: bool) -> Vec<u8> {
    let mut t = Vec::new();
    for (k, (name, desc, s)) in seqs.iter().enumerate() {
        t.extend_from_slice(b">"); t.extend_from_slice(name.as_bytes()); if let Some(d) = desc { t.push(b' '); t.extend_from_slice(d.as_bytes()); } t.extend_from_slice(eol.as_bytes());
        let last_rec = k + 1 == seqs.len();
        let n_lines = s.len().div_ceil(width);
        for (j, line) in s.chunks(width).enumerate() { t.extend_from_slice(line); if !(last_rec && j + 1 == n_lines && !final_newline) { t.extend_from_slice(eol.as_bytes()); } }
    }
    if trailing_blank && final_newline { t.extend_from_slice(eol.as_bytes()); }
    t
}

fn index_of(text: &[u8], cap: Option<usize>) -> Result<noodles_fasta::fai::Index, String> {
    let mut recs = Vec::new();
    macro_rules! run { ($r:expr) => {{ let mut ix = noodles_fasta::io::Indexer::new($r); loop { match ix.index_record() { Ok(Some(r)) => recs.push(r), Ok(None) => break, Err(e) => return Err(e.to_string()) } } }} }
    match cap { None => run!(text), Some(c) => run!(BufReader::with_capacity(c, text)) }
    Ok(noodles_fasta::fai::Index::from(recs))
}

pub fn fasta_index_query(tier: &str) -> Result<String, String> {
    let mut fails: BTreeMap<String, String> = BTreeMap::new();
    let (mut files, mut queries, mut rejected_ragged, mut rejected_wellformed) = (0u64, 0u64, 0u64, 0u64);
    std::panic::set_hook(Box::new(|_| {}));
    let lens: &[&[usize]] = &[&[1], &[4, 1, 9], &[10, 3], &[5, 12, 1, 7], &[61, 2, 200]];
    let widths: &[usize] = if tier == "thorough" { &[1, 2, 3, 4, 5, 7, 10, 60, 200] } else { &[1, 3, 4, 7, 60] };
    let caps: &[Option<usize>] = if tier == "thorough" { &[None, Some(1), Some(2), Some(3), Some(4), Some(5), Some(6), Some(7), Some(8), Some(11), Some(16), Some(17), Some(64)] } else { &[None, Some(1), Some(2), Some(3), Some(5), Some(8), Some(17)] };
    for (si, set) in lens.iter().enumerate() {
        let seqs: Vec<(String, Option<String>, Vec<u8>)> = set.iter().enumerate().map(|(k, &n)| (format!("sq{k}"), if k % 2 == 1 { Some(format!("desc {k} >x")) } else { None }, bases(n, si * 10 + k))).collect();
        for &width in widths { for eol in ["\n", "\r\n"] { for (final_newline, trailing_blank) in [(true, false), (false, false), (true, true)] {
            let text = render(&seqs, width, eol, final_newline, trailing_blank);
            files += 1;
            let label = format!("widths {width}, {}, {}{}", if eol == "\n" { "LF" } else { "CRLF" }, if final_newline { "final newline" } else { "no final newline" }, if trailing_blank { " + blank line" } else { "" });
            // the index must not depend on the window size of the source
            let index = match std::panic::catch_unwind(|| index_of(&text, None)) { Ok(Ok(i)) => i, Ok(Err(_)) => { rejected_wellformed += 1; continue; } /* the property speaks of files the indexer ACCEPTS: a refusal (e.g. a short last line followed by a blank line) is counted, not reported */ Err(_) => { fails.entry("index panic".into()).or_insert_with(|| format!("fasta index+query: the indexer PANICS ({label}; record lengths {set:?})")); continue; } };
            for cap in [Some(1usize), Some(3), Some(7)] { match std::panic::catch_unwind(|| index_of(&text, cap)) { Ok(Ok(i)) if i == index => {}, Ok(Ok(_)) => { fails.entry("index chunk".into()).or_insert_with(|| format!("fasta index+query: the index of a file depends on the BufReader capacity ({cap:?}; {label}; record lengths {set:?})")); } _ => { fails.entry("index chunk fail".into()).or_insert_with(|| format!("fasta index+query: the indexer fails or panics through a BufReader of capacity {cap:?} on a file it accepts as a slice ({label}; record lengths {set:?})")); } } }
            if index.as_ref().len() != seqs.len() { fails.entry("index count".into()).or_insert_with(|| format!("fasta index+query: {} index records for {} sequences ({label})", index.as_ref().len(), seqs.len())); continue; }
            for (k, (name, _, s)) in seqs.iter().enumerate() {
                if index.as_ref()[k].length() != s.len() as u64 { fails.entry("index len".into()).or_insert_with(|| format!("fasta index+query: index record {k} declares length {} for a {}-base sequence ({label})", index.as_ref()[k].length(), s.len())); }
                let n = s.len();
                let mut pts: Vec<usize> = if n <= 12 { (1..=n + 2).collect() } else { vec![1, 2, width.saturating_sub(1).max(1), width, width + 1, 2 * width, 2 * width + 1, n / 2, n - 1, n, n + 1, n + 5] };
                pts.retain(|&p| p >= 1); pts.sort(); pts.dedup();
                let mut regions: Vec<(String, usize, usize)> = Vec::new();
                for &a in &pts { for &b in &pts { if a <= b { regions.push((format!("{name}:{a}-{b}"), a, b)); } } regions.push((format!("{name}:{a}"), a, usize::MAX)); }
                regions.push((name.clone(), 1, usize::MAX));
                for (ri, (region, a, b)) in regions.iter().enumerate() {
                    let expected: &[u8] = if *a > n { &[] } else { &s[a - 1..(*b).min(n)] };
                    let region_p: noodles_core::Region = match region.parse() { Ok(r) => r, Err(_) => continue };
                    // every region through the whole slice; a rotating subset of capacities per region to bound the work
                    let my_caps: Vec<Option<usize>> = if tier == "thorough" || n <= 12 { caps.to_vec() } else { vec![caps[0], caps[1 + ri % (caps.len() - 1)]] };
                    for cap in my_caps {
                        queries += 1;
                        let r = std::panic::catch_unwind(|| -> Result<Vec<u8>, String> {
                            let rec = match cap { None => noodles_fasta::io::Reader::new(Cursor::new(&text[..])).query(&index, &region_p), Some(c) => noodles_fasta::io::Reader::new(BufReader::with_capacity(c, Cursor::new(&text[..]))).query(&index, &region_p) }.map_err(|e| e.to_string())?;
                            Ok(rec.sequence().as_ref().to_vec())
                        });
                        match r { Err(_) => { fails.entry("query panic".into()).or_insert_with(|| format!("fasta index+query: Reader::query PANICS for {region} ({label}; BufReader {cap:?})")); }
                            Ok(Err(e)) => { if *a <= n { fails.entry(format!("query err {}", cap.is_some())).or_insert_with(|| format!("fasta index+query: Reader::query fails for {region} on a {n}-base sequence ({label}; BufReader {cap:?}): {e}")); } }
                            Ok(Ok(got)) => { if got != expected { fails.entry(format!("query wrong {} {}", cap.is_some(), eol == "\n")).or_insert_with(|| format!("fasta index+query: {region} on a {n}-base sequence returns {:?}, the naive parse gives {:?} ({label}; BufReader {cap:?})", String::from_utf8_lossy(&got[..got.len().min(40)]), String::from_utf8_lossy(&expected[..expected.len().min(40)]))); } } }
                    }
                }
            }
        } } }
    }
    // ---- ragged files: rejected, or else indexed so that every region is right ----
    let ragged: Vec<(&str, Vec<u8>, Vec<u8>)> = vec![
        ("a longer last line", b">sq0\nACGT\nACGTN\n".to_vec(), b"ACGTACGTN".to_vec()),
        ("a longer last line without a final newline", b">sq0\nACGT\nACGTN".to_vec(), b"ACGTACGTN".to_vec()),
        ("CRLF lines then a longer LF-only last line", b">sq0\r\nACGT\r\nACGTN\n".to_vec(), b"ACGTACGTN".to_vec()),
        ("a short middle line", b">sq0\nACGT\nAC\nACGT\n".to_vec(), b"ACGTACACGT".to_vec()),
        ("a long middle line", b">sq0\nACGT\nACGTAC\nACGT\n".to_vec(), b"ACGTACGTACACGT".to_vec()),
        ("mixed terminators in the middle", b">sq0\nACGT\r\nACGT\nACGT\n".to_vec(), b"ACGTACGTACGT".to_vec()),
        ("a short line then a second record", b">sq0\nACGT\nAC\nACGT\n>sq1\nAC\n".to_vec(), b"ACGTACACGT".to_vec()),
    ];
    for (what, text, s) in &ragged {
        files += 1;
        match std::panic::catch_unwind(|| index_of(text, None)) {
            Err(_) => { fails.entry(format!("ragged panic {what}")).or_insert_with(|| format!("fasta index+query: the indexer PANICS on a file with {what}")); }
            Ok(Err(_)) => rejected_ragged += 1,
            Ok(Ok(index)) => { let n = s.len(); for a in 1..=n { for b in a..=n { queries += 1; let region: noodles_core::Region = format!("sq0:{a}-{b}").parse().unwrap();
                let got = std::panic::catch_unwind(|| noodles_fasta::io::Reader::new(Cursor::new(&text[..])).query(&index, &region).map(|r| r.sequence().as_ref().to_vec()));
                if let Ok(Ok(g)) = got { if g != s[a - 1..b] { fails.entry(format!("ragged {what}")).or_insert_with(|| format!("fasta index+query: a file with {what} is ACCEPTED by the indexer and mis-indexed: sq0:{a}-{b} returns {:?}, the naive parse gives {:?}", String::from_utf8_lossy(&g), String::from_utf8_lossy(&s[a - 1..b]))); } } } } }
        }
    }
    // ---- writer -> reader round trips ----
    let mut rt = 0u64;
    for w in [1usize, 2, 3, 59, 60, 61, 200] {
        let recs: Vec<noodles_fasta::Record> = [1usize, 59, 60, 61, 120, 121, 401].iter().enumerate().map(|(k, &n)| noodles_fasta::Record::new(noodles_fasta::record::Definition::new(format!("sq{k}"), if k % 2 == 0 { Some(format!("d {k}").into()) } else { None }), noodles_fasta::record::Sequence::from(bases(n, k)))).collect();
        let r = std::panic::catch_unwind(|| -> Result<(), String> {
            let mut wr = noodles_fasta::io::writer::Builder::default().set_line_base_count(NonZero::new(w).unwrap()).build_from_writer(Vec::new());
            for r in &recs { wr.write_record(r).map_err(|e| format!("write_record: {e}"))?; }
            let data = wr.get_ref().clone();
            for (k, line) in data.split(|&b| b == b'\n').enumerate() { if !line.starts_with(b">") && line.len() > w { return Err(format!("line {k} of the output is {} bytes wide", line.len())); } }
            let back: Vec<noodles_fasta::Record> = noodles_fasta::io::Reader::new(&data[..]).records().collect::<Result<_, _>>().map_err(|e| format!("reading back: {e}"))?;
            if back != recs { return Err(format!("{} records read back, differing from the {} written (first difference at {:?})", back.len(), recs.len(), recs.iter().zip(back.iter()).position(|(a, b)| a != b))); }
            // and what was written is indexable, with every record's bases where the index says
            let index = index_of(&data, None).map_err(|e| format!("the indexer rejects the writer's output: {e}"))?;
            for (k, r) in recs.iter().enumerate() { let region: noodles_core::Region = format!("sq{k}").parse().unwrap(); let got = noodles_fasta::io::Reader::new(Cursor::new(&data[..])).query(&index, &region).map_err(|e| format!("query: {e}"))?; if got.sequence().as_ref() != r.sequence().as_ref() { return Err(format!("sq{k} queried from the writer's output differs from what was written")); } }
            Ok(()) });
        rt += 1;
        match r { Err(_) => { fails.entry("fasta rt panic".into()).or_insert_with(|| format!("fasta round trip [line width {w}]: PANICS")); } Ok(Err(e)) => { fails.entry(format!("fasta rt {}", &e[..e.len().min(20)])).or_insert_with(|| format!("fasta round trip [line width {w}]: {e}")); } Ok(Ok(())) => {} }
    }
    {
        let recs: Vec<noodles_fastq::Record> = vec![
            noodles_fastq::Record::new(noodles_fastq::record::Definition::new("r0", ""), "ACGT", "@+@+"),
            noodles_fastq::Record::new(noodles_fastq::record::Definition::new("r1", "desc 1:N:0"), "A", "+"),
            noodles_fastq::Record::new(noodles_fastq::record::Definition::new("r2/1", ""), "NNNNNNNNNN", "@@@@@+++++"),
            noodles_fastq::Record::new(noodles_fastq::record::Definition::new("r3", "x"), "ACGTACGTAC", "IIIIIIIII@"),
        ];
        let r = std::panic::catch_unwind(|| -> Result<(), String> {
            let mut wr = noodles_fastq::io::Writer::new(Vec::new());
            for r in &recs { wr.write_record(r).map_err(|e| format!("write_record: {e}"))?; }
            let data = wr.get_ref().clone();
            for cap in [None, Some(1usize), Some(2), Some(3), Some(5), Some(9)] {
                let back: Vec<noodles_fastq::Record> = match cap { None => noodles_fastq::io::Reader::new(&data[..]).records().collect::<Result<_, _>>(), Some(c) => noodles_fastq::io::Reader::new(BufReader::with_capacity(c, &data[..])).records().collect::<Result<_, _>>() }.map_err(|e| format!("reading back (BufReader {cap:?}): {e}"))?;
                if back != recs { return Err(format!("records with '@' / '+' in the quality string read back different (BufReader {cap:?}; first difference at {:?})", recs.iter().zip(back.iter()).position(|(a, b)| a != b))); }
            }
            Ok(()) });
        rt += 1;
        match r { Err(_) => { fails.entry("fastq rt panic".into()).or_insert_with(|| "fastq round trip: PANICS".into()); } Ok(Err(e)) => { fails.entry("fastq rt".into()).or_insert_with(|| format!("fastq round trip: {e}")); } Ok(Ok(())) => {} }
    }
    let _ = std::panic::take_hook();
    if (queries < 5000 || rejected_wellformed * 5 > files) && fails.is_empty() { return Err(format!("UNDECIDED: only {queries} queries ran ({rejected_wellformed} of {files} files refused by the indexer)")); }
    if fails.is_empty() { Ok(format!("\"files\":{files},\"queries\":{queries},\"ragged_files_rejected\":{rejected_ragged},\"wellformed_files_refused_by_the_indexer\":{rejected_wellformed},\"round_trips\":{rt}")) }
    else { Err(format!("FAILURES\n{}", fails.values().cloned().collect::<Vec<_>>().join("\n"))) }
}
