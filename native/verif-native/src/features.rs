//! C18 BOUNDED-NATIVE stand-in (never counted as proved): deterministic bounded round trip of GFF3, GTF and BED through the
//! real writers and readers.  Every record / directive / comment the writer accepts is written (several per file, so that
//! per-line reader state is reused), the output is checked to be one well-formed line per item, and it is read back through
//! the owned routes (record_bufs / line_bufs / RecordBuf::try_from_feature_record) and the lazy routes (lines / read_line /
//! the lazy record accessors, attributes().iter()/get(), Array::iter, other_fields().iter()/get()).  Every field is compared
//! with what was written, including the order of attributes and of the values of a multi-valued attribute.
//!
//! Normalisations (the FORMAT cannot distinguish these, so the harness does not either):
//!  * a GFF3/GTF attribute with exactly one value reads back as a String even when it was written from a one-element Array;
//!  * a GFF3 directive value reads back as text: a typed value (version / sequence region / genome build) is compared by
//!    parsing that text with the type's own FromStr;
//!  * a BED name "." is the missing-name marker, a BED optional column has no type in the text (typed values are compared
//!    by their text).
use std::cell::Cell;
use std::collections::{BTreeMap, BTreeSet};
use std::panic::{catch_unwind, AssertUnwindSafe};

use bstr::{BString, ByteSlice};
use noodles_bed as bed;
use noodles_core::Position;
use noodles_gff as gff;
use noodles_gtf as gtf;

use gff::directive_buf::value::{GenomeBuild, GffVersion, SequenceRegion};
use gff::feature::record::{Phase, Strand};
use gff::feature::record_buf::attributes::field::Value as AttrBuf;
use gff::feature::RecordBuf;

type BStrand = bed::feature::record::Strand;

// ------------------------------------------------------------------------------------------------------------ infrastructure
struct Rng(u64);
impl Rng {
    fn new(seed: u64) -> Self { Rng(seed.wrapping_mul(0x9E3779B97F4A7C15) | 1) }
    fn next(&mut self) -> u64 { let mut x = self.0; x ^= x << 13; x ^= x >> 7; x ^= x << 17; self.0 = x; x.wrapping_mul(0x2545F4914F6CDD1D) >> 11 }
    fn below(&mut self, n: usize) -> usize { (self.next() % n as u64) as usize }
    fn chance(&mut self, num: usize, den: usize) -> bool { self.below(den) < num }
    fn pick<'a, T>(&mut self, xs: &'a [T]) -> &'a T { &xs[self.below(xs.len())] }
}

struct Fail { first: String, count: u64, routes: BTreeSet<String>, classes: BTreeSet<&'static str> }
#[derive(Default)]
struct Log { fails: BTreeMap<String, Fail>, order: Vec<String> }
impl Log {
    /// one entry per distinct `key` (format + field/aspect); the first witness is kept, later ones only counted
    fn fail(&mut self, key: &str, route: &str, class: &'static str, line: impl FnOnce() -> String) {
        if !self.fails.contains_key(key) {
            self.order.push(key.to_string());
            let l = line().replace('\n', "\\n").replace('\t', "\\t").replace('\r', "\\r");
            self.fails.insert(key.to_string(), Fail { first: l, count: 0, routes: BTreeSet::new(), classes: BTreeSet::new() });
        }
        let f = self.fails.get_mut(key).unwrap();
        f.count += 1;
        if !route.is_empty() { f.routes.insert(route.to_string()); }
        if !class.is_empty() { f.classes.insert(class); }
    }
    fn lines(&self) -> Vec<String> {
        let mut out = Vec::new();
        for k in self.order.iter().take(40) {
            let f = &self.fails[k];
            let mut l = f.first.clone();
            l.push_str(&format!(" [{} occurrence(s)", f.count));
            if !f.routes.is_empty() { l.push_str(&format!("; seen via: {}", f.routes.iter().cloned().collect::<Vec<_>>().join(", "))); }
            if !f.classes.is_empty() { l.push_str(&format!("; classes of the written value: {}", f.classes.iter().cloned().collect::<Vec<_>>().join(", "))); }
            l.push(']');
            out.push(l);
        }
        if self.order.len() > 40 { out.push(format!("... and {} more distinct failures", self.order.len() - 40)); }
        out
    }
}

#[derive(Default)]
struct Stats { generated: u64, accepted: u64, rejected: u64, broken: u64, compared: u64, lines: u64 }

fn show(b: &[u8]) -> String { let s = format!("{:?}", b.as_bstr()); if s.len() > 240 { let mut i = 240; while !s.is_char_boundary(i) { i -= 1; } format!("{}...({} bytes)", &s[..i], b.len()) } else { s } }
fn show_list(v: &[Vec<u8>]) -> String { format!("[{}]", v.iter().map(|x| show(x)).collect::<Vec<_>>().join(", ")) }
fn pos(n: usize) -> Position { Position::new(n).expect("harness positions are >= 1") }

/// coarse class of a written free-text value: tells the distinct root causes behind one failing field apart
fn class(v: &[u8]) -> &'static str {
    if v.contains(&b'\t') { "tab" }
    else if v.contains(&b'\n') || v.contains(&b'\r') { "line terminator" }
    else if v.contains(&b'"') || v.contains(&b'\\') { "quote or backslash" }
    else if v.contains(&b'%') { "percent sign" }
    else if v.iter().any(|b| b";=&,".contains(b)) { "reserved punctuation ; = & ," }
    else if v.starts_with(b">") || v.starts_with(b"#") { "leading > or #" }
    else if v.contains(&b' ') { "space" }
    else if v.iter().any(|b| *b >= 0x80) { "non-ASCII UTF-8" }
    else if v.iter().any(|b| *b < 0x20 || *b == 0x7f) { "control character" }
    else if v.is_empty() { "empty" }
    else if v == b"." { "single dot" }
    else { "plain" }
}

/// exactly one line: one '\n', at the end, and (if given) the expected number of tab-separated columns
fn structure(bytes: &[u8], cols: Option<usize>) -> Option<String> {
    let nl = bytes.iter().filter(|b| **b == b'\n').count();
    if nl != 1 || !bytes.ends_with(b"\n") { return Some(format!("{nl} line feed(s) instead of exactly one at the end")); }
    if let Some(c) = cols { let got = bytes.iter().filter(|b| **b == b'\t').count() + 1; if got != c { return Some(format!("{got} tab-separated columns instead of {c}")); } }
    None
}

fn guarded(log: &mut Log, fmt: &str, label: &str, f: impl FnOnce(&mut Log, &Cell<&'static str>)) {
    let stage = Cell::new("setting up");
    let r = catch_unwind(AssertUnwindSafe(|| f(&mut *log, &stage)));
    if r.is_err() { let s = stage.get(); log.fail(&format!("{fmt} panic {s}"), s, "", || format!("{fmt} [{label}] while {s}: PANICS")); }
}

// ------------------------------------------------------------------------------------------------- GFF3 / GTF feature model
#[derive(Clone)]
struct Feat { seqid: Vec<u8>, source: Vec<u8>, ty: Vec<u8>, start: usize, end: usize, score: Option<f32>, strand: Strand, phase: Option<Phase>,
    /// (tag, values, build as Value::Array even when there is one value)
    attrs: Vec<(Vec<u8>, Vec<Vec<u8>>, bool)> }

impl std::fmt::Debug for Feat {
    fn fmt(&self, f: &mut std::fmt::Formatter<'_>) -> std::fmt::Result {
        write!(f, "record {{ seqid {}, source {}, type {}, {}..{}, score {:?}, strand {:?}, phase {:?}, attributes [{}] }}", show(&self.seqid), show(&self.source), show(&self.ty), self.start, self.end, self.score, self.strand, self.phase,
            self.attrs.iter().map(|(t, v, arr)| format!("{}={}{}", show(t), show_list(v), if *arr && v.len() == 1 { " (as Array)" } else { "" })).collect::<Vec<_>>().join("; "))
    }
}

#[derive(Clone, Debug)]
struct View { seqid: Vec<u8>, source: Vec<u8>, ty: Vec<u8>, start: usize, end: usize, score: Option<f32>, strand: Strand, phase: Option<Phase>, attrs: Vec<(Vec<u8>, Vec<Vec<u8>>)>,
    /// only in the EXPECTED view: attribute i was written from a Value::String (a one-element Array may read back as a String — the text cannot tell — but a String must not read back as an Array)
    strs: Vec<bool> }

impl Feat {
    fn plain() -> Feat { Feat { seqid: b"chr1".to_vec(), source: b"src".to_vec(), ty: b"gene".to_vec(), start: 10, end: 20, score: None, strand: Strand::Forward, phase: None, attrs: vec![(b"ID".to_vec(), vec![b"g1".to_vec()], false)] } }
    fn view(&self) -> View { View { seqid: self.seqid.clone(), source: self.source.clone(), ty: self.ty.clone(), start: self.start, end: self.end, score: self.score, strand: self.strand, phase: self.phase, attrs: self.attrs.iter().map(|(t, v, _)| (t.clone(), v.clone())).collect(), strs: self.attrs.iter().map(|(_, v, arr)| !*arr && v.len() == 1).collect() } }
    fn build(&self) -> RecordBuf {
        let attrs: gff::feature::record_buf::Attributes = self.attrs.iter().map(|(t, vs, arr)| (BString::from(t.clone()),
            if *arr || vs.len() != 1 { AttrBuf::Array(vs.iter().map(|v| BString::from(v.clone())).collect()) } else { AttrBuf::String(BString::from(vs[0].clone())) })).collect();
        let mut b = RecordBuf::builder().set_reference_sequence_name(self.seqid.clone()).set_source(self.source.clone()).set_type(self.ty.clone())
            .set_start(pos(self.start)).set_end(pos(self.end)).set_strand(self.strand).set_attributes(attrs);
        if let Some(s) = self.score { b = b.set_score(s); }
        if let Some(p) = self.phase { b = b.set_phase(p); }
        b.build()
    }
    /// the first free-text field that holds a tab or a line terminator (for the line-structure failures)
    fn blame(&self) -> (&'static str, &'static str) {
        let bad = |v: &[u8]| v.contains(&b'\t') || v.contains(&b'\n') || v.contains(&b'\r');
        // (source and type first: the GFF3 writer escapes the other fields)
        if bad(&self.source) { return ("source", class(&self.source)); }
        if bad(&self.ty) { return ("type", class(&self.ty)); }
        if bad(&self.seqid) { return ("reference sequence name", class(&self.seqid)); }
        for (t, vs, _) in &self.attrs { if bad(t) { return ("attribute tag", class(t)); } for v in vs { if bad(v) { return ("attribute value", class(v)); } } }
        ("record", "plain")
    }
}

/// GFF3 column 1 as the specification wants it written: every byte outside [a-zA-Z0-9.:^*$@!+_?-|] as %XX (independent of the library)
fn seqid_encode(v: &[u8]) -> Vec<u8> {
    let mut o = Vec::new();
    for &b in v { if b.is_ascii_alphanumeric() || b".:^*$@!+_?-|".contains(&b) { o.push(b); } else { o.extend_from_slice(format!("%{b:02X}").as_bytes()); } }
    o
}

fn same_score(a: Option<f32>, b: Option<f32>) -> bool { match (a, b) { (None, None) => true, (Some(x), Some(y)) => x.to_bits() == y.to_bits() || (x.is_nan() && y.is_nan()) || (x == 0.0 && y == 0.0), _ => false } }

/// (aspect, class of the written value, wrote, read)
fn diff(e: &View, g: &View) -> Vec<(&'static str, &'static str, String, String)> {
    let mut d = Vec::new();
    // (F47: the signature of the recorded finding — the seqid comes back exactly as the GFF3 writer percent-encodes it — has its own
    // aspect, so that any OTHER way of getting the reference sequence name wrong is reported separately)
    if e.seqid != g.seqid { d.push((if g.seqid == seqid_encode(&e.seqid) { "reference sequence name (read back still percent-encoded)" } else { "reference sequence name" }, class(&e.seqid), show(&e.seqid), show(&g.seqid))); }
    for (a, x, y) in [("source", &e.source, &g.source), ("type", &e.ty, &g.ty)] { if x != y { d.push((a, class(x), show(x), show(y))); } }
    if e.start != g.start { d.push(("start", "", e.start.to_string(), g.start.to_string())); }
    if e.end != g.end { d.push(("end", "", e.end.to_string(), g.end.to_string())); }
    if !same_score(e.score, g.score) { d.push(("score", "", format!("{:?}", e.score), format!("{:?}", g.score))); }
    if e.strand != g.strand { d.push(("strand", "", format!("{:?}", e.strand), format!("{:?}", g.strand))); }
    if e.phase != g.phase { d.push(("phase", "", format!("{:?}", e.phase), format!("{:?}", g.phase))); }
    let et: Vec<Vec<u8>> = e.attrs.iter().map(|a| a.0.clone()).collect();
    let gt: Vec<Vec<u8>> = g.attrs.iter().map(|a| a.0.clone()).collect();
    if et != gt {
        let (mut es, mut gs) = (et.clone(), gt.clone()); es.sort(); gs.sort();
        let aspect = if es == gs { "attribute order" } else if et.len() != gt.len() { "attribute count" } else { "attribute tag" };
        let c = et.iter().zip(gt.iter()).find(|(a, b)| a != b).map(|(a, _)| class(a)).unwrap_or("");
        d.push((aspect, c, format!("tags {}", show_list(&et)), format!("tags {}", show_list(&gt))));
    } else {
        for ((t, ev), (_, gv)) in e.attrs.iter().zip(g.attrs.iter()) { if ev != gv {
            let (mut es, mut gs) = (ev.clone(), gv.clone()); es.sort(); gs.sort();
            let ne: Vec<Vec<u8>> = ev.iter().filter(|v| !v.is_empty()).cloned().collect();
            let aspect = if es == gs { "order of the values of a multi-valued attribute" } else if &ne == gv { "empty values of a multi-valued attribute" } else if ev.len() != gv.len() { "attribute value count" } else { "attribute value" };
            let c = ev.iter().zip(gv.iter()).find(|(a, b)| a != b).map(|(a, _)| class(a)).unwrap_or("");
            d.push((aspect, c, format!("{}={}", show(t), show_list(ev)), format!("{}={}", show(t), show_list(gv))));
            break;
        } }
    }
    d
}

fn report_diff(log: &mut Log, fmt: &str, route: &str, e: &View, g: &View, line: &[u8]) {
    for (aspect, c, wrote, read) in diff(e, g) {
        log.fail(&format!("{fmt} field {aspect}"), route, c, || format!("{fmt}: {aspect} reads back different: wrote {wrote}, read {read}; the written line is {}", show(line)));
    }
}

/// view through the format-independent `gff::feature::Record` trait (owned and lazy records alike), incl. Attributes::get
fn view_dyn(r: &dyn gff::feature::Record) -> Result<View, String> {
    let a = r.attributes();
    let mut attrs: Vec<(Vec<u8>, Vec<Vec<u8>>)> = Vec::new();
    for item in a.iter().take(10_000) {
        let (t, v) = item.map_err(|e| format!("attributes().iter() fails: {e}"))?;
        let mut vals = Vec::new();
        for x in v.iter().take(10_000) { vals.push(x.map_err(|e| format!("attribute value iter() fails: {e}"))?.to_vec()); }
        // (Value::as_array ties its result to the record's lifetime, which a loop-local value cannot satisfy: only as_string is probed)
        match &v { gff::feature::record::attributes::field::Value::String(s) => { if v.as_string().map(|x| x.to_vec()) != Some(s.to_vec()) { return Err("attribute Value as_string() inconsistent: String variant".into()); } }
            gff::feature::record::attributes::field::Value::Array(_) => { if v.as_string().is_some() { return Err("attribute Value as_string() inconsistent: Array variant".into()); } } }
        attrs.push((t.to_vec(), vals));
    }
    if a.is_empty() != attrs.is_empty() { return Err(format!("attributes().is_empty() inconsistent: is_empty() is {} but iter() yields {} fields", a.is_empty(), attrs.len())); }
    for (t, vals) in &attrs {
        match a.get(t) {
            Some(Ok(v)) => { let got: Vec<Vec<u8>> = v.iter().take(10_000).map(|x| x.map(|s| s.to_vec()).unwrap_or_default()).collect(); if &got != vals { return Err(format!("attributes().get(tag) disagrees with iter(): tag {} get {} iter {}", show(t), show_list(&got), show_list(vals))); } }
            Some(Err(e)) => return Err(format!("attributes().get(tag) fails: tag {}: {e}", show(t))),
            None => return Err(format!("attributes().get(tag) is None for a tag iter() yields: tag {}", show(t))),
        }
    }
    if a.get(b"\x01no such tag\x02").is_some() { return Err("attributes().get(tag) is Some for an absent tag".into()); }
    Ok(View { seqid: r.reference_sequence_name().to_vec(), source: r.source().to_vec(), ty: r.ty().to_vec(),
        start: usize::from(r.feature_start().map_err(|e| format!("feature_start() fails: {e}"))?), end: usize::from(r.feature_end().map_err(|e| format!("feature_end() fails: {e}"))?),
        score: r.score().transpose().map_err(|e| format!("score() fails: {e}"))?, strand: r.strand().map_err(|e| format!("strand() fails: {e}"))?,
        phase: r.phase().transpose().map_err(|e| format!("phase() fails: {e}"))?, attrs, strs: Vec::new() })
}

/// view through the inherent accessors of the owned record
fn owned_view(r: &RecordBuf) -> Result<View, String> {
    let mut attrs = Vec::new();
    for (t, v) in r.attributes().as_ref().iter() {
        let vals: Vec<Vec<u8>> = v.iter().map(|x| x.to_vec()).collect();
        match v { AttrBuf::String(s) => { if v.as_string().map(|x| x.to_vec()) != Some(s.to_vec()) || v.as_array().is_some() { return Err("RecordBuf attribute as_string()/as_array() inconsistent".into()); } }
            AttrBuf::Array(xs) => { if v.as_string().is_some() || v.as_array().map(|a| a.len()) != Some(xs.len()) { return Err("RecordBuf attribute as_string()/as_array() inconsistent".into()); } } }
        match r.attributes().get(t) { Some(w) if w == v => {}, _ => return Err(format!("RecordBuf attributes().get(tag) disagrees with iteration: tag {}", show(t))) }
        attrs.push((t.to_vec(), vals));
    }
    if r.attributes().len() != attrs.len() || r.attributes().is_empty() != attrs.is_empty() { return Err("RecordBuf attributes len()/is_empty() inconsistent".into()); }
    Ok(View { seqid: r.reference_sequence_name().to_vec(), source: r.source().to_vec(), ty: r.ty().to_vec(), start: usize::from(r.start()), end: usize::from(r.end()), score: r.score(), strand: r.strand(), phase: r.phase(), attrs, strs: Vec::new() })
}

/// an error string "aspect: detail" from a view extractor becomes a failure keyed by the aspect
fn report_err(log: &mut Log, fmt: &str, route: &str, err: &str, line: &[u8]) {
    let aspect = err.split(':').next().unwrap_or(err);
    log.fail(&format!("{fmt} error {aspect}"), route, "", || format!("{fmt}: {err}; the written line is {}", show(line)));
}

/// owned record (from record_bufs / line_bufs / try_from_feature_record): inherent accessors and trait view against the model
fn check_owned(log: &mut Log, fmt: &str, route: &str, e: &View, rb: &RecordBuf, line: &[u8]) {
    if e.strs.len() == rb.attributes().len() { for ((t, v), was_string) in rb.attributes().as_ref().iter().zip(e.strs.iter()) { if *was_string && !matches!(v, AttrBuf::String(_)) {
        log.fail(&format!("{fmt} string value reads back as array"), route, "", || format!("{fmt}: the attribute {} was written from a String value and reads back as an Array ({route}); the written line is {}", show(t), show(line))); } } }
    match owned_view(rb) { Ok(g) => report_diff(log, fmt, route, e, &g, line), Err(m) => report_err(log, fmt, route, &m, line) }
    match view_dyn(rb) { Ok(g) => report_diff(log, fmt, route, e, &g, line), Err(m) => report_err(log, fmt, route, &m, line) }
}

/// textual oracle on the written fixed columns (independent of the readers)
fn check_columns(log: &mut Log, fmt: &str, f: &Feat, line: &[u8]) {
    let cols: Vec<&[u8]> = line[..line.len() - 1].split(|b| *b == b'\t').collect();
    if cols.len() != 9 { return; }
    let strand: &[u8] = match f.strand { Strand::None => b".", Strand::Forward => b"+", Strand::Reverse => b"-", Strand::Unknown => b"?" };
    let phase: &[u8] = match f.phase { None => b".", Some(Phase::Zero) => b"0", Some(Phase::One) => b"1", Some(Phase::Two) => b"2" };
    let mut bad: Vec<&'static str> = Vec::new();
    if cols[3] != f.start.to_string().as_bytes() { bad.push("start"); }
    if cols[4] != f.end.to_string().as_bytes() { bad.push("end"); }
    if (cols[5] == b".") != f.score.is_none() { bad.push("score"); }
    if cols[6] != strand { bad.push("strand"); }
    if cols[7] != phase { bad.push("phase"); }
    if fmt == "GFF3" {
        // "IDs may contain any characters, but must escape any characters not in the set [a-zA-Z0-9.:^*$@!+_?-|]"
        if !cols[0].iter().all(|b| b.is_ascii_alphanumeric() || b".:^*$@!+_?-|%".contains(b)) { bad.push("reference sequence name (unescaped reserved character)"); }
        if f.attrs.is_empty() != (cols[8] == b".") { bad.push("attributes (missing marker)"); }
        if !f.attrs.is_empty() && cols[8].split(|b| *b == b';').count() != f.attrs.len() { bad.push("attributes (field count in the text)"); }
    }
    for b in bad { log.fail(&format!("{fmt} written column {b}"), "writer", "", || format!("{fmt} writer: column {b} of the written line is not what the format prescribes for {f:?}: line {}", show(line))); }
}

// ----------------------------------------------------------------------------------------------------------------- GFF3
#[derive(Clone, Debug, PartialEq)]
enum DirVal { Version(GffVersion), Region(SequenceRegion), Build(GenomeBuild), Text(Vec<u8>) }
impl DirVal {
    fn to_value(&self) -> gff::directive_buf::Value { use gff::directive_buf::Value as V; match self { DirVal::Version(v) => V::GffVersion(v.clone()), DirVal::Region(r) => V::SequenceRegion(r.clone()), DirVal::Build(b) => V::GenomeBuild(b.clone()), DirVal::Text(t) => V::String(BString::from(t.clone())) } }
    /// data-model equality with the TEXT the readers return (typed values: parse the text with the type's own FromStr)
    fn matches_text(&self, t: &[u8]) -> bool {
        let s = std::str::from_utf8(t).ok();
        match self { DirVal::Text(x) => x == t, DirVal::Version(v) => s.and_then(|s| s.parse::<GffVersion>().ok()).as_ref() == Some(v),
            DirVal::Region(r) => s.and_then(|s| s.parse::<SequenceRegion>().ok()).as_ref() == Some(r), DirVal::Build(b) => s.and_then(|s| s.parse::<GenomeBuild>().ok()).as_ref() == Some(b) }
    }
}
#[derive(Clone)]
enum Item { Rec(Feat), Dir(Vec<u8>, Option<DirVal>), Comment(Vec<u8>), /** raw bytes after everything else (FASTA section) */ Raw(Vec<u8>) }

impl std::fmt::Debug for Item { fn fmt(&self, f: &mut std::fmt::Formatter<'_>) -> std::fmt::Result { match self { Item::Rec(r) => write!(f, "{r:?}"), Item::Dir(k, v) => write!(f, "directive {} {v:?}", show(k)), Item::Comment(c) => write!(f, "comment {}", show(c)), Item::Raw(b) => write!(f, "raw bytes {}", show(b)) } } }

fn dir_ok(e: &Option<DirVal>, got: Option<&[u8]>) -> bool { match (e, got) { (None, None) => true, (Some(v), Some(t)) => v.matches_text(t), _ => false } }

/// lazy GFF3 record: inherent accessors, attributes().iter()/get(), Array::iter
fn gff_lazy_view(r: &gff::Record<'_>) -> Result<View, String> {
    use gff::record::attributes::field::Value as V;
    let a = r.attributes();
    let vals_of = |v: &V<'_>| -> Vec<Vec<u8>> { match v { V::String(s) => vec![s.to_vec()], V::Array(arr) => arr.iter().take(10_000).map(|x| x.to_vec()).collect() } };
    let mut attrs: Vec<(Vec<u8>, Vec<Vec<u8>>)> = Vec::new();
    for item in a.iter().take(10_000) { let (t, v) = item.map_err(|e| format!("lazy attributes().iter() fails: {e}"))?; attrs.push((t.to_vec(), vals_of(&v))); }
    if a.is_empty() != attrs.is_empty() { return Err(format!("lazy attributes().is_empty() inconsistent: is_empty() is {} but iter() yields {} fields", a.is_empty(), attrs.len())); }
    for (t, vals) in &attrs {
        match a.get(t) {
            Some(Ok(v)) => { let got = vals_of(&v); if &got != vals { return Err(format!("lazy attributes().get(tag) disagrees with iter(): tag {} get {} iter {}", show(t), show_list(&got), show_list(vals))); } }
            Some(Err(e)) => return Err(format!("lazy attributes().get(tag) fails: tag {}: {e}", show(t))),
            None => return Err(format!("lazy attributes().get(tag) is None for a tag iter() yields: tag {}", show(t))),
        }
    }
    if a.get(b"\x01no such tag\x02").is_some() { return Err("lazy attributes().get(tag) is Some for an absent tag".into()); }
    Ok(View { seqid: r.reference_sequence_name().to_vec(), source: r.source().to_vec(), ty: r.ty().to_vec(),
        start: usize::from(r.start().map_err(|e| format!("lazy start() fails: {e}"))?), end: usize::from(r.end().map_err(|e| format!("lazy end() fails: {e}"))?),
        score: r.score().transpose().map_err(|e| format!("lazy score() fails: {e}"))?, strand: r.strand().map_err(|e| format!("lazy strand() fails: {e}"))?,
        phase: r.phase().transpose().map_err(|e| format!("lazy phase() fails: {e}"))?, attrs, strs: Vec::new() })
}

fn views_equal(a: &View, b: &View) -> bool { diff(a, b).is_empty() }

/// everything that is checked on one lazy GFF3 line against the expected item
fn check_gff_line(log: &mut Log, route: &str, line: &gff::Line, item: &Item, bytes: &[u8], owned_ref: Option<&RecordBuf>) {
    use gff::line::Kind;
    let fmt = "GFF3";
    let text = &bytes[..bytes.len() - 1];
    if <gff::Line as AsRef<bstr::BStr>>::as_ref(line).as_bytes() != text { log.fail("GFF3 lazy line text", route, "", || format!("GFF3: the lazy Line holds {} for the written line {}", show(<gff::Line as AsRef<bstr::BStr>>::as_ref(line).as_bytes()), show(bytes))); return; }
    match item {
        Item::Rec(f) => {
            let e = f.view();
            if line.kind() != Kind::Record || line.as_directive().is_some() || line.as_comment().is_some() { log.fail("GFF3 line kind of a record", route, class(&f.seqid), || format!("GFF3: a written record is classified as {:?}: line {}", line.kind(), show(bytes))); return; }
            let rec = match line.as_record() { Some(Ok(r)) => r, Some(Err(er)) => { report_err(log, fmt, route, &format!("Line::as_record() fails: {er}"), bytes); return; } None => return };
            let lazy = match gff_lazy_view(&rec) { Ok(v) => { report_diff(log, fmt, &format!("{route} + lazy accessors"), &e, &v, bytes); Some(v) } Err(m) => { report_err(log, fmt, route, &m, bytes); None } };
            match view_dyn(&rec) { Ok(v) => report_diff(log, fmt, &format!("{route} + lazy record as feature::Record"), &e, &v, bytes), Err(m) => report_err(log, fmt, route, &m, bytes) }
            match RecordBuf::try_from_feature_record(&rec) {
                Ok(rb) => {
                    check_owned(log, fmt, &format!("{route} + RecordBuf::try_from_feature_record"), &e, &rb, bytes);
                    // the lazy view returns the same field values as the owned record built from it
                    if let (Some(l), Ok(o)) = (&lazy, owned_view(&rb)) { if !views_equal(l, &o) { let d = diff(&o, l); log.fail(&format!("GFF3 lazy vs owned {}", d[0].0), route, d[0].1, || format!("GFF3: the lazy record and the RecordBuf built from it disagree on {}: owned {}, lazy {}; line {}", d[0].0, d[0].2, d[0].3, show(bytes))); } }
                    if let Some(o) = owned_ref { if !matches!((owned_view(&rb), owned_view(o)), (Ok(x), Ok(y)) if views_equal(&x, &y)) /* (not ==: a NaN score is not equal to itself) */ { log.fail("GFF3 owned routes disagree", route, "", || format!("GFF3: record_bufs() and RecordBuf::try_from_feature_record(lazy) give different records for line {}", show(bytes))); } }
                }
                Err(er) => report_err(log, fmt, route, &format!("RecordBuf::try_from_feature_record(lazy) fails: {er}"), bytes),
            }
            // the lazy record is itself a record the writer accepts: it must be written as the same line
            let mut w = gff::io::Writer::new(Vec::new());
            match w.write_feature_record(&rec) { Ok(()) => if w.get_ref() != bytes {
                    let (b, c) = f.blame_encoded();
                    // (F47, second face: the lazy record hands the writer the still-encoded seqid, which is encoded again)
                    let tab = bytes.iter().position(|x| *x == b'\t').unwrap_or(0);
                    let twice: Vec<u8> = seqid_encode(&bytes[..tab]).into_iter().chain(bytes[tab..].iter().copied()).collect();
                    if w.get_ref() == &twice { log.fail("GFF3 re-serialised lazy record seqid twice", route, c, || format!("GFF3: writing the lazy record of a line percent-encodes the reference sequence name a second time: line {} gives {}", show(bytes), show(w.get_ref()))); }
                    else { log.fail(&format!("GFF3 re-serialised lazy record {b}"), route, c, || format!("GFF3: writing the lazy record of line {} gives {}", show(bytes), show(w.get_ref()))); }
                },
                Err(er) => report_err(log, fmt, route, &format!("write_feature_record(lazy record) fails: {er}"), bytes) }
        }
        Item::Dir(k, v) => {
            if line.kind() != Kind::Directive || line.as_record().is_some() || line.as_comment().is_some() { log.fail("GFF3 line kind of a directive", route, "", || format!("GFF3: a written directive is classified as {:?}: line {}", line.kind(), show(bytes))); return; }
            let Some(d) = line.as_directive() else { return };
            if d.key().as_bytes() != &k[..] || !dir_ok(v, d.value().map(|s| s.as_bytes())) { log.fail(&format!("GFF3 lazy directive {}", dir_kind(v)), route, "", || format!("GFF3: directive [{}] reads back different (lazy): {} {:?} written as {} reads back as key {} value {:?}", dir_kind(v), show(k), v, show(bytes), show(d.key()), d.value())); }
        }
        Item::Comment(c) => {
            if line.kind() != Kind::Comment || line.as_record().is_some() || line.as_directive().is_some() { log.fail("GFF3 line kind of a comment", route, "", || format!("GFF3: a written comment is classified as {:?}: line {}", line.kind(), show(bytes))); return; }
            if line.as_comment().map(|s| s.as_bytes()) != Some(&c[..]) { log.fail("GFF3 lazy comment", route, class(c), || format!("GFF3: comment {} written as {} reads back (lazy as_comment) as {:?}", show(c), show(bytes), line.as_comment())); }
        }
        Item::Raw(_) => {}
    }
}
fn dir_kind(v: &Option<DirVal>) -> &'static str { match v { None => "without value", Some(DirVal::Version(_)) => "gff-version",
    // (F50: a sequence-region whose name holds whitespace is the recorded finding; any other sequence-region failure is reported separately)
    Some(DirVal::Region(r)) if r.reference_sequence_name().bytes().any(|b| b.is_ascii_whitespace()) => "sequence-region (whitespace in the name)",
    Some(DirVal::Region(_)) => "sequence-region", Some(DirVal::Build(_)) => "genome-build", Some(DirVal::Text(_)) => "with text value" } }
impl Feat {
    /// which field makes the re-serialised lazy record differ (the first one the writer encodes)
    fn blame_encoded(&self) -> (&'static str, &'static str) {
        let enc = |v: &[u8]| !v.iter().all(|b| b.is_ascii_alphanumeric() || b".:^*$@!+_?-|".contains(b));
        if enc(&self.seqid) { ("reference sequence name", class(&self.seqid)) } else { ("other field", "") }
    }
}

fn gff_file(label: &str, items: &[Item], log: &mut Log, st: &mut Stats, stage: &Cell<&'static str>) {
    let fmt = "GFF3";
    stage.set("writing");
    let mut w = gff::io::Writer::new(Vec::new());
    let mut exp: Vec<(&Item, Vec<u8>)> = Vec::new();
    let mut raw_tail = false;
    for (i, it) in items.iter().enumerate() {
        let before = w.get_ref().len();
        let res = match it {
            Item::Rec(f) => { st.generated += 1; let rb = f.build(); match i % 3 { 0 => w.write_record(&rb), 1 => w.write_feature_record(&rb), _ => w.write_line(&gff::LineBuf::Record(rb)) } }
            Item::Dir(k, v) => { st.lines += 1; let d = gff::DirectiveBuf::new(k.clone(), v.as_ref().map(|v| v.to_value())); if i % 2 == 0 { w.write_directive(&d) } else { w.write_line(&gff::LineBuf::Directive(d)) } }
            Item::Comment(c) => { st.lines += 1; w.write_line(&gff::LineBuf::Comment(BString::from(c.clone()))) }
            Item::Raw(b) => { w.get_mut().extend_from_slice(b); raw_tail = true; continue; }
        };
        if res.is_err() { w.get_mut().truncate(before); if matches!(it, Item::Rec(_)) { st.rejected += 1; } continue; }
        let bytes = w.get_ref()[before..].to_vec();
        if let Item::Rec(_) = it { st.accepted += 1; }
        let cols = if matches!(it, Item::Rec(_)) { Some(9) } else { None };
        if let Some(p) = structure(&bytes, cols) {
            match it { Item::Rec(f) => { st.broken += 1; let (field, c) = f.blame();
                    // (F48: the signature of the recorded finding — a source / type holding a tab or line terminator appears VERBATIM in the
                    // line — has its own key; a line broken in any other way is reported separately)
                    let t1 = bytes.iter().position(|x| *x == b'\t').map(|i| i + 1).unwrap_or(0);
                    let verbatim = match field { "source" => bytes[t1..].starts_with(&f.source) && bytes[t1 + f.source.len()..].starts_with(b"\t"), "type" => { let pat: Vec<u8> = [&b"\t"[..], &f.ty[..], &b"\t"[..]].concat(); bytes.windows(pat.len()).any(|w| w == &pat[..]) } _ => false };
                    let key = if verbatim { format!("{fmt} line structure {field} verbatim") } else { format!("{fmt} line structure {field}") };
                    let what = if verbatim { "written verbatim" } else { "written" };
                    log.fail(&key, "writer", c, || format!("{fmt} writer: a record whose {field} holds a tab or line terminator is {what}: {field} {} gives the line {} which has {p}", show(match field { "reference sequence name" => &f.seqid, "source" => &f.source, "type" => &f.ty, _ => b"(see line)" }), show(&bytes))); }
                _ => log.fail(&format!("{fmt} line structure directive/comment"), "writer", "", || format!("{fmt} writer: {it:?} is written as {} which has {p}", show(&bytes))) }
            w.get_mut().truncate(before); continue;
        }
        if let Item::Rec(f) = it { check_columns(log, fmt, f, &bytes); }
        exp.push((it, bytes));
    }
    let data = w.into_inner();
    let n_exp = exp.len();
    let lim = n_exp + 8;
    let _ = label;

    // owned route 1: record_bufs() (records only; stops at ##FASTA)
    stage.set("record_bufs()");
    let fasta_at = exp.iter().position(|(it, _)| matches!(it, Item::Dir(k, _) if k == b"FASTA")).unwrap_or(n_exp);
    let exp_recs: Vec<(&Feat, &Vec<u8>)> = exp[..fasta_at].iter().filter_map(|(it, b)| if let Item::Rec(f) = it { Some((f, b)) } else { None }).collect();
    let got: Vec<Result<RecordBuf, String>> = gff::io::Reader::new(&data[..]).record_bufs().take(lim).map(|r| r.map_err(|e| e.to_string())).collect();
    let mut owned: Vec<Option<RecordBuf>> = vec![None; n_exp];
    if got.len() != exp_recs.len() { log.fail("GFF3 record_bufs() count", "record_bufs()", "", || format!("GFF3: record_bufs() yields {} items for a file of {} records (##FASTA section: {raw_tail}): file {}", got.len(), exp_recs.len(), show(&data))); }
    else {
        let idx: Vec<usize> = exp[..fasta_at].iter().enumerate().filter(|(_, (it, _))| matches!(it, Item::Rec(_))).map(|(i, _)| i).collect();
        for (j, ((f, b), g)) in exp_recs.iter().zip(got.iter()).enumerate() { match g {
            Ok(rb) => { st.compared += 1; check_owned(log, fmt, "record_bufs()", &f.view(), rb, b); owned[idx[j]] = Some(rb.clone()); }
            Err(e) => report_err(log, fmt, "record_bufs()", &format!("record_bufs() fails on a written record: {e}"), b) } }
    }

    // owned route 2: line_bufs()
    stage.set("line_bufs()");
    let got: Vec<Result<gff::LineBuf, String>> = gff::io::Reader::new(&data[..]).line_bufs().take(lim).map(|r| r.map_err(|e| e.to_string())).collect();
    if (!raw_tail && got.len() != n_exp) || got.len() < n_exp { log.fail("GFF3 line_bufs() count", "line_bufs()", "", || format!("GFF3: line_bufs() yields {} items for a file of {n_exp} lines: file {}", got.len(), show(&data))); }
    else { for ((it, b), g) in exp.iter().zip(got.iter()) { match (it, g) {
        (_, Err(e)) => report_err(log, fmt, "line_bufs()", &format!("line_bufs() fails on a written line: {e}"), b),
        (Item::Rec(f), Ok(gff::LineBuf::Record(rb))) => check_owned(log, fmt, "line_bufs()", &f.view(), rb, b),
        (Item::Dir(k, v), Ok(gff::LineBuf::Directive(d))) => {
            let ok = d.key().as_bytes() == &k[..] && match (v, d.value()) { (None, None) => true, (Some(e), Some(gff::directive_buf::Value::String(s))) => e.matches_text(s), (Some(e), Some(other)) => &e.to_value() == other, _ => false };
            if !ok { log.fail(&format!("GFF3 owned directive {}", dir_kind(v)), "line_bufs()", "", || format!("GFF3: directive [{}] reads back different: {} {v:?} written as {} reads back as {d:?}", dir_kind(v), show(k), show(b))); } }
        (Item::Comment(c), Ok(gff::LineBuf::Comment(s))) => { if s.as_bytes() != &c[..] { log.fail("GFF3 owned comment", "line_bufs()", class(c), || format!("GFF3: LineBuf::Comment({}) written as {} reads back as LineBuf::Comment({})", show(c), show(b), show(s))); } }
        (_, Ok(other)) => log.fail("GFF3 owned line kind", "line_bufs()", "", || format!("GFF3: {it:?} written as {} reads back as a different kind of line: {other:?}", show(b))),
    } } }

    // lazy route 1: lines()
    stage.set("lines()");
    let got: Vec<Result<gff::Line, String>> = gff::io::Reader::new(&data[..]).lines().take(lim).map(|r| r.map_err(|e| e.to_string())).collect();
    if (!raw_tail && got.len() != n_exp) || got.len() < n_exp { log.fail("GFF3 lines() count", "lines()", "", || format!("GFF3: lines() yields {} items for a file of {n_exp} lines: file {}", got.len(), show(&data))); }
    else { for (i, ((it, b), g)) in exp.iter().zip(got.iter()).enumerate() { match g { Ok(l) => check_gff_line(log, "lines()", l, it, b, owned[i].as_ref()), Err(e) => report_err(log, fmt, "lines()", &format!("lines() fails on a written line: {e}"), b) } } }

    // lazy route 2: read_line into ONE reused Line
    stage.set("read_line()");
    let mut rd = gff::io::Reader::new(&data[..]);
    let mut line = gff::Line::default();
    let mut n = 0;
    loop {
        match rd.read_line(&mut line) { Ok(0) => break, Ok(_) => { if n < n_exp { let (it, b) = &exp[n]; check_gff_line(log, "read_line()", &line, it, b, owned[n].as_ref()); } n += 1; }
            Err(e) => { report_err(log, fmt, "read_line()", &format!("read_line() fails: {e}"), if n < n_exp { &exp[n].1 } else { b"\n" }); n += 1; } }
        if n > lim { break; }
    }
    if (!raw_tail && n != n_exp) || n < n_exp { log.fail("GFF3 read_line() count", "read_line()", "", || format!("GFF3: read_line() yields {n} lines for a file of {n_exp} lines: file {}", show(&data))); }
}

// ------------------------------------------------------------------------------------------------------------------ GTF
/// lazy GTF record: inherent accessors, attributes() -> iter()/get(), Value::iter
fn gtf_lazy_view(r: &gtf::Record<'_>) -> Result<View, String> {
    let a = r.attributes().map_err(|e| format!("lazy attributes() fails: {e}"))?;
    let mut attrs: Vec<(Vec<u8>, Vec<Vec<u8>>)> = Vec::new();
    for item in a.iter().take(10_000) {
        let (k, v) = item.map_err(|e| format!("lazy attributes().iter() fails: {e}"))?;
        let vals: Vec<Vec<u8>> = v.iter().map(|x| x.to_vec()).collect();
        match v { gtf::record::attributes::field::Value::String(_) => if vals.len() != 1 { return Err("lazy attribute Value::String iter() inconsistent".into()); }, gtf::record::attributes::field::Value::Array(xs) => if xs.len() != vals.len() { return Err("lazy attribute Value::Array iter() inconsistent".into()); } }
        attrs.push((k.to_vec(), vals));
    }
    if a.is_empty() != attrs.is_empty() { return Err(format!("lazy attributes().is_empty() inconsistent: is_empty() is {} but iter() yields {} fields", a.is_empty(), attrs.len())); }
    for (t, vals) in &attrs {
        match a.get(t) {
            Some(Ok(v)) => { let got: Vec<Vec<u8>> = v.iter().map(|x| x.to_vec()).collect(); if &got != vals { return Err(format!("lazy attributes().get(key) disagrees with iter(): key {} get {} iter {}", show(t), show_list(&got), show_list(vals))); } }
            Some(Err(e)) => return Err(format!("lazy attributes().get(key) fails: key {}: {e}", show(t))),
            None => return Err(format!("lazy attributes().get(key) is None for a key iter() yields: key {}", show(t))),
        }
    }
    if a.get(b"\x01no such key\x02").is_some() { return Err("lazy attributes().get(key) is Some for an absent key".into()); }
    Ok(View { seqid: r.reference_sequence_name().to_vec(), source: r.source().to_vec(), ty: r.ty().to_vec(),
        start: usize::from(r.start().map_err(|e| format!("lazy start() fails: {e}"))?), end: usize::from(r.end().map_err(|e| format!("lazy end() fails: {e}"))?),
        score: r.score().transpose().map_err(|e| format!("lazy score() fails: {e}"))?, strand: r.strand().map_err(|e| format!("lazy strand() fails: {e}"))?,
        phase: r.phase().transpose().map_err(|e| format!("lazy phase() fails: {e}"))?, attrs, strs: Vec::new() })
}

fn check_gtf_line(log: &mut Log, route: &str, line: &gtf::Line, item: &Item, bytes: &[u8], owned_ref: Option<&RecordBuf>) {
    use gtf::line::Kind;
    let fmt = "GTF";
    let text = &bytes[..bytes.len() - 1];
    if <gtf::Line as AsRef<bstr::BStr>>::as_ref(line).as_bytes() != text { log.fail("GTF lazy line text", route, "", || format!("GTF: the lazy Line holds {} for the written line {}", show(<gtf::Line as AsRef<bstr::BStr>>::as_ref(line).as_bytes()), show(bytes))); return; }
    match item {
        Item::Rec(f) => {
            let e = f.view();
            if line.kind() != Kind::Record || line.as_comment().is_some() { log.fail("GTF line kind of a record", route, class(&f.seqid), || format!("GTF: a written record is classified as {:?}: line {}", line.kind(), show(bytes))); return; }
            let rec = match line.as_record() { Some(Ok(r)) => r, Some(Err(er)) => { report_err(log, fmt, route, &format!("Line::as_record() fails: {er}"), bytes); return; } None => return };
            let lazy = match gtf_lazy_view(&rec) { Ok(v) => { report_diff(log, fmt, &format!("{route} + lazy accessors"), &e, &v, bytes); Some(v) } Err(m) => { report_err(log, fmt, route, &m, bytes); return; } };
            // (the trait impl of the lazy GTF record unwraps attributes(): only reached when attributes() parsed above)
            match view_dyn(&rec) { Ok(v) => report_diff(log, fmt, &format!("{route} + lazy record as feature::Record"), &e, &v, bytes), Err(m) => report_err(log, fmt, route, &m, bytes) }
            match RecordBuf::try_from_feature_record(&rec) {
                Ok(rb) => {
                    check_owned(log, fmt, &format!("{route} + RecordBuf::try_from_feature_record"), &e, &rb, bytes);
                    if let (Some(l), Ok(o)) = (&lazy, owned_view(&rb)) { if !views_equal(l, &o) { let d = diff(&o, l); log.fail(&format!("GTF lazy vs owned {}", d[0].0), route, d[0].1, || format!("GTF: the lazy record and the RecordBuf built from it disagree on {}: owned {}, lazy {}; line {}", d[0].0, d[0].2, d[0].3, show(bytes))); } }
                    if let Some(o) = owned_ref { if !matches!((owned_view(&rb), owned_view(o)), (Ok(x), Ok(y)) if views_equal(&x, &y)) /* (not ==: a NaN score is not equal to itself) */ { log.fail("GTF owned routes disagree", route, "", || format!("GTF: record_bufs() and RecordBuf::try_from_feature_record(lazy) give different records for line {}", show(bytes))); } }
                }
                Err(er) => report_err(log, fmt, route, &format!("RecordBuf::try_from_feature_record(lazy) fails: {er}"), bytes),
            }
            let mut w = gtf::io::Writer::new(Vec::new());
            match w.write_feature_record(&rec) { Ok(()) => if w.get_ref() != bytes { log.fail("GTF re-serialised lazy record", route, "", || format!("GTF: writing the lazy record of line {} gives {}", show(bytes), show(w.get_ref()))); },
                Err(er) => report_err(log, fmt, route, &format!("write_feature_record(lazy record) fails: {er}"), bytes) }
        }
        Item::Comment(c) => {
            if line.kind() != Kind::Comment || line.as_record().is_some() { log.fail("GTF line kind of a comment", route, "", || format!("GTF: a written comment is classified as {:?}: line {}", line.kind(), show(bytes))); return; }
            if line.as_comment().map(|s| s.as_bytes()) != Some(&c[..]) { log.fail("GTF lazy comment", route, class(c), || format!("GTF: comment {} written as {} reads back (lazy as_comment) as {:?}", show(c), show(bytes), line.as_comment())); }
        }
        _ => {}
    }
}

fn gtf_file(label: &str, items: &[Item], log: &mut Log, st: &mut Stats, stage: &Cell<&'static str>) {
    let fmt = "GTF";
    stage.set("writing");
    let mut w = gtf::io::Writer::new(Vec::new());
    let mut exp: Vec<(&Item, Vec<u8>)> = Vec::new();
    for (i, it) in items.iter().enumerate() {
        let before = w.get_ref().len();
        let res = match it {
            Item::Rec(f) => { st.generated += 1; let rb = f.build(); match i % 3 { 0 => w.write_record(&rb), 1 => w.write_feature_record(&rb), _ => w.write_line(&gtf::LineBuf::Record(rb)) } }
            Item::Comment(c) => { st.lines += 1; w.write_line(&gtf::LineBuf::Comment(BString::from(c.clone()))) }
            _ => continue,
        };
        if res.is_err() { w.get_mut().truncate(before); if matches!(it, Item::Rec(_)) { st.rejected += 1; } continue; }
        let bytes = w.get_ref()[before..].to_vec();
        if let Item::Rec(_) = it { st.accepted += 1; }
        let cols = if matches!(it, Item::Rec(_)) { Some(9) } else { None };
        if let Some(p) = structure(&bytes, cols) {
            if let Item::Rec(f) = it { st.broken += 1; let (field, c) = f.blame(); log.fail(&format!("{fmt} line structure {field}"), "writer", c, || format!("{fmt} writer: record {f:?} is written as {} which has {p}", show(&bytes))); }
            else { log.fail("GTF line structure comment", "writer", "", || format!("{fmt} writer: {it:?} is written as {} which has {p}", show(&bytes))); }
            w.get_mut().truncate(before); continue;
        }
        if let Item::Rec(f) = it { check_columns(log, fmt, f, &bytes); }
        exp.push((it, bytes));
    }
    let data = w.into_inner();
    let n_exp = exp.len();
    let lim = n_exp + 8;
    let _ = label;

    stage.set("record_bufs()");
    let idx: Vec<usize> = exp.iter().enumerate().filter(|(_, (it, _))| matches!(it, Item::Rec(_))).map(|(i, _)| i).collect();
    let got: Vec<Result<RecordBuf, String>> = gtf::io::Reader::new(&data[..]).record_bufs().take(lim).map(|r| r.map_err(|e| e.to_string())).collect();
    let mut owned: Vec<Option<RecordBuf>> = vec![None; n_exp];
    if got.len() != idx.len() { log.fail("GTF record_bufs() count", "record_bufs()", "", || format!("GTF: record_bufs() yields {} items for a file of {} records: file {}", got.len(), idx.len(), show(&data))); }
    else { for (j, g) in got.iter().enumerate() { let (it, b) = &exp[idx[j]]; let Item::Rec(f) = it else { continue }; match g {
        Ok(rb) => { st.compared += 1; check_owned(log, fmt, "record_bufs()", &f.view(), rb, b); owned[idx[j]] = Some(rb.clone()); }
        Err(e) => report_err(log, fmt, "record_bufs()", &format!("record_bufs() fails on a written record: {e}"), b) } } }

    stage.set("line_bufs()");
    let got: Vec<Result<gtf::LineBuf, String>> = gtf::io::Reader::new(&data[..]).line_bufs().take(lim).map(|r| r.map_err(|e| e.to_string())).collect();
    if got.len() != n_exp { log.fail("GTF line_bufs() count", "line_bufs()", "", || format!("GTF: line_bufs() yields {} items for a file of {n_exp} lines: file {}", got.len(), show(&data))); }
    else { for ((it, b), g) in exp.iter().zip(got.iter()) { match (it, g) {
        (_, Err(e)) => report_err(log, fmt, "line_bufs()", &format!("line_bufs() fails on a written line: {e}"), b),
        (Item::Rec(f), Ok(gtf::LineBuf::Record(rb))) => check_owned(log, fmt, "line_bufs()", &f.view(), rb, b),
        (Item::Comment(c), Ok(gtf::LineBuf::Comment(s))) => { if s.as_bytes() != &c[..] { log.fail("GTF owned comment", "line_bufs()", class(c), || format!("GTF: LineBuf::Comment({}) written as {} reads back as LineBuf::Comment({})", show(c), show(b), show(s))); } }
        (_, Ok(other)) => log.fail("GTF owned line kind", "line_bufs()", "", || format!("GTF: {it:?} written as {} reads back as a different kind of line: {other:?}", show(b))),
    } } }

    stage.set("lines()");
    let got: Vec<Result<gtf::Line, String>> = gtf::io::Reader::new(&data[..]).lines().take(lim).map(|r| r.map_err(|e| e.to_string())).collect();
    if got.len() != n_exp { log.fail("GTF lines() count", "lines()", "", || format!("GTF: lines() yields {} items for a file of {n_exp} lines: file {}", got.len(), show(&data))); }
    else { for (i, ((it, b), g)) in exp.iter().zip(got.iter()).enumerate() { match g { Ok(l) => check_gtf_line(log, "lines()", l, it, b, owned[i].as_ref()), Err(e) => report_err(log, fmt, "lines()", &format!("lines() fails on a written line: {e}"), b) } } }

    stage.set("read_line()");
    let mut rd = gtf::io::Reader::new(&data[..]);
    let mut line = gtf::Line::default();
    let mut n = 0;
    loop {
        match rd.read_line(&mut line) { Ok(0) => break, Ok(_) => { if n < n_exp { let (it, b) = &exp[n]; check_gtf_line(log, "read_line()", &line, it, b, owned[n].as_ref()); } n += 1; }
            Err(e) => { report_err(log, fmt, "read_line()", &format!("read_line() fails: {e}"), if n < n_exp { &exp[n].1 } else { b"\n" }); n += 1; } }
        if n > lim { break; }
    }
    if n != n_exp { log.fail("GTF read_line() count", "read_line()", "", || format!("GTF: read_line() yields {n} lines for a file of {n_exp} lines: file {}", show(&data))); }
}

// ------------------------------------------------------------------------------------------------------------------ BED
#[derive(Clone)]
enum Ov { I(i64), U(u64), F(f64), C(u8), S(Vec<u8>) }
impl std::fmt::Debug for Ov { fn fmt(&self, f: &mut std::fmt::Formatter<'_>) -> std::fmt::Result { match self { Ov::I(n) => write!(f, "Int64({n})"), Ov::U(n) => write!(f, "UInt64({n})"), Ov::F(x) => write!(f, "Float64({x})"), Ov::C(c) => write!(f, "Character({})", show(&[*c])), Ov::S(s) => write!(f, "String({})", show(s)) } } }
impl Ov {
    fn text(&self) -> Vec<u8> { match self { Ov::I(n) => n.to_string().into_bytes(), Ov::U(n) => n.to_string().into_bytes(), Ov::F(x) => format!("{x}").into_bytes(), Ov::C(c) => vec![*c], Ov::S(s) => s.clone() } }
    fn to_buf(&self) -> bed::feature::record_buf::other_fields::Value { use bed::feature::record_buf::other_fields::Value as V; match self { Ov::I(n) => V::Int64(*n), Ov::U(n) => V::UInt64(*n), Ov::F(x) => V::Float64(*x), Ov::C(c) => V::Character(*c), Ov::S(s) => V::String(BString::from(s.clone())) } }
}
/// N-independent model; the fields beyond the first N standard columns are ignored when writing BEDN
#[derive(Clone)]
struct BedRec { chrom: Vec<u8>, start: usize, end: Option<usize>, name: Option<Vec<u8>>, score: u16, strand: Option<BStrand>, other: Vec<Ov> }
#[derive(Clone, Debug, PartialEq)]
struct BedView { chrom: Vec<u8>, start: usize, end: Option<usize>, name: Option<Option<Vec<u8>>>, score: Option<u16>, strand: Option<Option<BStrand>>, other: Vec<Vec<u8>> }
impl std::fmt::Debug for BedRec {
    fn fmt(&self, f: &mut std::fmt::Formatter<'_>) -> std::fmt::Result { write!(f, "record {{ chrom {}, start {}, end {:?}, name {:?}, score {}, strand {:?}, optional columns {:?} }}", show(&self.chrom), self.start, self.end, self.name.as_ref().map(|n| show(n)), self.score, self.strand, self.other) }
}
impl BedRec {
    fn plain() -> BedRec { BedRec { chrom: b"chr1".to_vec(), start: 1, end: Some(10), name: Some(b"n".to_vec()), score: 0, strand: None, other: vec![] } }
    fn view(&self, n: usize) -> BedView {
        // "." is the missing-name marker of the format: Some(".") and None are the same text
        let name = match &self.name { Some(x) if x == b"." => None, x => x.clone() };
        BedView { chrom: self.chrom.clone(), start: self.start, end: self.end, name: if n >= 4 { Some(name) } else { None }, score: if n >= 5 { Some(self.score) } else { None }, strand: if n >= 6 { Some(self.strand) } else { None }, other: self.other.iter().map(|o| o.text()).collect() }
    }
}
fn ov_text(v: bed::feature::record::other_fields::Value<'_>) -> Vec<u8> { use bed::feature::record::other_fields::Value as V; match v { V::Int64(n) => n.to_string().into_bytes(), V::UInt64(n) => n.to_string().into_bytes(), V::Float64(x) => format!("{x}").into_bytes(), V::Character(c) => vec![c], V::String(s) => s.to_vec() } }

/// view through the `bed::feature::Record<N>` trait (owned and lazy alike)
fn bed_view_dyn<const N: usize, R: bed::feature::Record<N>>(r: &R) -> Result<BedView, String> {
    let of = r.other_fields();
    let other: Vec<Vec<u8>> = of.iter().take(10_000).map(ov_text).collect();
    if of.len() != other.len() || of.is_empty() != other.is_empty() { return Err(format!("other_fields() len()/is_empty() disagree with iter(): len() {} is_empty() {} iter() yields {}", of.len(), of.is_empty(), other.len())); }
    if r.standard_field_count() != N { return Err("standard_field_count() is not N".into()); }
    Ok(BedView { chrom: r.reference_sequence_name().to_vec(), start: usize::from(r.feature_start().map_err(|e| format!("feature_start() fails: {e}"))?),
        end: r.feature_end().transpose().map_err(|e| format!("feature_end() fails: {e}"))?.map(usize::from), name: r.name().map(|o| o.map(|s| s.to_vec())),
        score: r.score().transpose().map_err(|e| format!("score() fails: {e}"))?, strand: r.strand().transpose().map_err(|e| format!("strand() fails: {e}"))?, other })
}

fn bed_diff(e: &BedView, g: &BedView) -> Vec<(&'static str, &'static str, String, String)> {
    let mut d = Vec::new();
    if e.chrom != g.chrom { d.push(("reference sequence name", class(&e.chrom), show(&e.chrom), show(&g.chrom))); }
    if e.start != g.start { d.push(("feature start", "", e.start.to_string(), g.start.to_string())); }
    if e.end != g.end { d.push(("feature end", "", format!("{:?}", e.end), format!("{:?}", g.end))); }
    if e.name != g.name { d.push(("name", e.name.clone().flatten().map(|n| class(&n)).unwrap_or("missing"), format!("{:?}", e.name.clone().map(|o| o.map(|n| show(&n)))), format!("{:?}", g.name.clone().map(|o| o.map(|n| show(&n)))))); }
    if e.score != g.score { d.push(("score", "", format!("{:?}", e.score), format!("{:?}", g.score))); }
    if e.strand != g.strand { d.push(("strand", "", format!("{:?}", e.strand), format!("{:?}", g.strand))); }
    if e.other.len() != g.other.len() { d.push(("optional column count", "", show_list(&e.other), show_list(&g.other))); }
    else if e.other != g.other { let c = e.other.iter().zip(g.other.iter()).find(|(a, b)| a != b).map(|(a, _)| class(a)).unwrap_or(""); d.push(("optional column value", c, show_list(&e.other), show_list(&g.other))); }
    d
}
fn bed_report(log: &mut Log, fmt: &str, route: &str, e: &BedView, g: &BedView, line: &[u8], prev: &[u8]) {
    for (aspect, c, wrote, read) in bed_diff(e, g) { log.fail(&format!("{fmt} field {aspect}"), route, c, || format!("{fmt}: {aspect} reads back different: wrote {wrote}, read {read}; the written line is {} (previous line of the file: {})", show(line), show(prev))); }
}

macro_rules! bed_n {
    ($fname:ident, $n:literal, $fmt:literal, [$($nm:tt)?], [$($sc:tt)?], [$($sd:tt)?]) => {
        fn $fname(label: &str, recs: &[BedRec], log: &mut Log, st: &mut Stats, stage: &Cell<&'static str>) {
            let fmt = $fmt;
            let _ = label;
            let build = |r: &BedRec| -> bed::feature::RecordBuf<$n> {
                #[allow(unused_mut)]
                let mut b = bed::feature::RecordBuf::<$n>::builder().set_reference_sequence_name(r.chrom.clone()).set_feature_start(pos(r.start));
                if let Some(e) = r.end { b = b.set_feature_end(pos(e)); }
                $( let _ = stringify!($nm); if let Some(nm) = &r.name { b = b.set_name(nm.clone()); } )?
                $( let _ = stringify!($sc); b = b.set_score(r.score); )?
                $( let _ = stringify!($sd); if let Some(s) = r.strand { b = b.set_strand(s); } )?
                b.set_other_fields(bed::feature::record_buf::OtherFields::from(r.other.iter().map(|o| o.to_buf()).collect::<Vec<_>>())).build()
            };
            // lazy record: inherent accessors, other_fields().len()/is_empty()/get(i)/iter()
            let lazy_view = |rec: &bed::Record<$n>| -> Result<BedView, String> {
                let of = rec.other_fields();
                let n = of.len();
                let by_get: Vec<Vec<u8>> = (0..n).map(|i| of.get(i).map(|s| s.to_vec())).collect::<Option<Vec<_>>>().ok_or_else(|| "lazy other_fields().get(i) is None for some i < len()".to_string())?;
                if of.get(n).is_some() { return Err("lazy other_fields().get(len()) is Some".into()); }
                let by_iter: Vec<Vec<u8>> = of.iter().take(n + 64).map(|s| s.to_vec()).collect();
                if by_iter != by_get { return Err(format!("lazy other_fields().iter() disagrees with get(i): iter {} get {}", show_list(&by_iter), show_list(&by_get))); }
                if of.is_empty() != (n == 0) { return Err("lazy other_fields().is_empty() disagrees with len()".into()); }
                if rec.standard_field_count() != $n { return Err("lazy standard_field_count() is not N".into()); }
                #[allow(unused_mut)]
                let mut v = BedView { chrom: rec.reference_sequence_name().to_vec(), start: usize::from(rec.feature_start().map_err(|e| format!("lazy feature_start() fails: {e}"))?),
                    end: rec.feature_end().transpose().map_err(|e| format!("lazy feature_end() fails: {e}"))?.map(usize::from), name: None, score: None, strand: None, other: by_get };
                $( let _ = stringify!($nm); v.name = Some(rec.name().map(|s| s.to_vec())); )?
                $( let _ = stringify!($sc); v.score = Some(rec.score().map_err(|e| format!("lazy score() fails: {e}"))?); )?
                $( let _ = stringify!($sd); v.strand = Some(rec.strand().map_err(|e| format!("lazy strand() fails: {e}"))?); )?
                Ok(v)
            };
            // owned record: inherent accessors
            let owned_view = |rb: &bed::feature::RecordBuf<$n>| -> BedView {
                #[allow(unused_mut)]
                let mut v = BedView { chrom: rb.reference_sequence_name().to_vec(), start: usize::from(rb.feature_start()), end: rb.feature_end().map(usize::from), name: None, score: None, strand: None,
                    other: rb.other_fields().as_ref().iter().map(|x| ov_text(x.into())).collect() };
                $( let _ = stringify!($nm); v.name = Some(rb.name().map(|s| s.to_vec())); )?
                $( let _ = stringify!($sc); v.score = Some(rb.score()); )?
                $( let _ = stringify!($sd); v.strand = Some(rb.strand()); )?
                v
            };

            stage.set("writing");
            let mut w = bed::io::Writer::<$n, _>::new(Vec::new());
            let mut exp: Vec<(&BedRec, Vec<u8>)> = Vec::new();
            for r in recs {
                st.generated += 1;
                let before = w.get_ref().len();
                if w.write_feature_record(&build(r)).is_err() { w.get_mut().truncate(before); st.rejected += 1; continue; }
                st.accepted += 1;
                let bytes = w.get_ref()[before..].to_vec();
                if let Some(p) = structure(&bytes, Some($n + r.other.len())) { st.broken += 1; log.fail(&format!("{fmt} line structure"), "writer", "", || format!("{fmt} writer: {r:?} is written as {} which has {p}", show(&bytes))); w.get_mut().truncate(before); continue; }
                // textual oracle on the written standard columns: 0-based start, end or 0, name or ".", score, strand
                let cols: Vec<&[u8]> = bytes[..bytes.len() - 1].split(|b| *b == b'\t').collect();
                let mut want: Vec<Vec<u8>> = vec![r.chrom.clone(), (r.start - 1).to_string().into_bytes(), r.end.unwrap_or(0).to_string().into_bytes()];
                if $n >= 4 { want.push(r.name.clone().unwrap_or_else(|| b".".to_vec())); }
                if $n >= 5 { want.push(r.score.to_string().into_bytes()); }
                if $n >= 6 { want.push(match r.strand { None => b".".to_vec(), Some(BStrand::Forward) => b"+".to_vec(), Some(BStrand::Reverse) => b"-".to_vec() }); }
                for o in &r.other { want.push(o.text()); }
                if cols.iter().map(|c| c.to_vec()).collect::<Vec<_>>() != want { log.fail(&format!("{fmt} written columns"), "writer", "", || format!("{fmt} writer: {r:?} is written as {}, expected columns {}", show(&bytes), show_list(&want))); }
                exp.push((r, bytes));
            }
            let data = w.into_inner();
            let n_exp = exp.len();

            for reuse in [true, false] {
                let route = if reuse { "read_record (one reused Record)" } else { "read_record (fresh Record each)" };
                stage.set(if reuse { "read_record (one reused Record)" } else { "read_record (fresh Record each)" });
                let mut rd = bed::io::Reader::<$n, _>::new(&data[..]);
                let mut rec = bed::Record::<$n>::default();
                let mut n = 0usize;
                loop {
                    if !reuse { rec = bed::Record::<$n>::default(); }
                    match rd.read_record(&mut rec) {
                        Ok(0) => break,
                        Err(e) => { log.fail(&format!("{fmt} error read_record"), route, "", || format!("{fmt}: read_record fails on record {n} of a file of {n_exp}: {e}; file {}", show(&data))); break; }
                        Ok(len) => {
                            if n >= n_exp { n += 1; if n > n_exp + 8 { break; } continue; }
                            let (r, b) = &exp[n];
                            let prev: &[u8] = if n > 0 { &exp[n - 1].1 } else { b"" };
                            let e = r.view($n);
                            if len != b.len() { log.fail(&format!("{fmt} read_record byte count"), route, "", || format!("{fmt}: read_record returns {len} for the {}-byte line {}", b.len(), show(b))); }
                            let lazy = match lazy_view(&rec) { Ok(v) => { bed_report(log, fmt, &format!("{route} + lazy accessors"), &e, &v, b, prev); Some(v) } Err(m) => { let a = m.split(':').next().unwrap_or("").to_string(); log.fail(&format!("{fmt} error {a}"), route, "", || format!("{fmt}: {m}; line {} (previous line of the file: {})", show(b), show(prev))); None } };
                            match bed_view_dyn::<$n, _>(&rec) { Ok(v) => bed_report(log, fmt, &format!("{route} + lazy record as feature::Record"), &e, &v, b, prev), Err(m) => { let a = m.split(':').next().unwrap_or("").to_string(); log.fail(&format!("{fmt} error {a}"), route, "", || format!("{fmt}: lazy record as feature::Record: {m}; line {} (previous line of the file: {})", show(b), show(prev))); } }
                            match bed::feature::RecordBuf::<$n>::try_from_feature_record(&rec) {
                                Ok(rb) => {
                                    if reuse { st.compared += 1; }
                                    let o = owned_view(&rb);
                                    bed_report(log, fmt, &format!("{route} + RecordBuf::try_from_feature_record"), &e, &o, b, prev);
                                    match bed_view_dyn::<$n, _>(&rb) { Ok(v) => bed_report(log, fmt, &format!("{route} + RecordBuf as feature::Record"), &e, &v, b, prev), Err(m) => log.fail(&format!("{fmt} error owned view"), route, "", || format!("{fmt}: RecordBuf as feature::Record: {m}; line {}", show(b))) }
                                    if let Some(l) = &lazy { if l != &o { let d = bed_diff(&o, l); log.fail(&format!("{fmt} lazy vs owned {}", d[0].0), route, d[0].1, || format!("{fmt}: the lazy record and the RecordBuf built from it disagree on {}: owned {}, lazy {}; line {}", d[0].0, d[0].2, d[0].3, show(b))); } }
                                    // the owned record read back is written as the same line again
                                    let mut w2 = bed::io::Writer::<$n, _>::new(Vec::new());
                                    match w2.write_feature_record(&rb) { Ok(()) => if w2.get_ref() != b { log.fail(&format!("{fmt} re-serialised owned record"), route, "", || format!("{fmt}: writing the RecordBuf read from line {} gives {}", show(b), show(w2.get_ref()))); }, Err(er) => log.fail(&format!("{fmt} error re-serialise owned"), route, "", || format!("{fmt}: write_feature_record(RecordBuf read back) fails: {er}; line {}", show(b))) }
                                }
                                Err(er) => log.fail(&format!("{fmt} error try_from_feature_record"), route, "", || format!("{fmt}: RecordBuf::try_from_feature_record(lazy) fails: {er}; line {}", show(b))),
                            }
                            // write_record takes the lazy record: it must reproduce the line
                            let mut w2 = bed::io::Writer::<$n, _>::new(Vec::new());
                            match w2.write_record(&rec) { Ok(()) => if w2.get_ref() != b { log.fail(&format!("{fmt} re-serialised lazy record"), route, "", || format!("{fmt}: write_record(lazy record) of line {} gives {} (previous line of the file: {})", show(b), show(w2.get_ref()), show(prev))); }, Err(er) => log.fail(&format!("{fmt} error re-serialise lazy"), route, "", || format!("{fmt}: write_record(lazy record) fails: {er}; line {}", show(b))) }
                            n += 1;
                        }
                    }
                }
                if n != n_exp { log.fail(&format!("{fmt} read_record count"), route, "", || format!("{fmt}: read_record yields {n} records for a file of {n_exp}: file {}", show(&data))); }
            }
        }
    };
}
bed_n!(bed_file_3, 3, "BED3", [], [], []);
bed_n!(bed_file_4, 4, "BED4", [x], [], []);
bed_n!(bed_file_5, 5, "BED5", [x], [x], []);
bed_n!(bed_file_6, 6, "BED6", [x], [x], [x]);

// ------------------------------------------------------------------------------------------------------------ generators
/// GFF3 free text: every reserved character of the format, literal percent signs, leading '>' / '#', white space, non-ASCII
const GFF_TEXT: &[&str] = &["chr1", "a b", "\u{e9}", "\u{65e5}\u{672c}", ".", "", "100%", "%41", "%", "%4", "a%2Cb", "a;b", "a=b", "a&b", "a,b", ";", "=", ",", ",,", ">seq", "#hash", "##x",
    "a\tb", "\t", "a\nb", "\n", "a\rb", "x\r", "\r\n", " ", " lead", "trail ", "a\u{1}b", "a\u{7f}b", "a+b", "a\"b\\c", "tab\tnl\n;=&,%>#\u{e9}"];
const GFF_PLAIN: &[&str] = &["a", "b", "Z", "0", "9", "_", "-", ".", ":", "chr", "gene", "ID", "x1"];
const GFF_SPICY: &[&str] = &[" ", "\t", "\n", "\r", ";", "=", "&", ",", "%", "%41", "%2C", ">", "#", "\u{e9}", "\u{65e5}\u{672c}", "+", "\"", "\\", "/", "|", "~", "\u{7f}", "\u{1}", "^", "*", "$", "@", "!", "?", "a", "7"];
/// GTF plain columns are written verbatim: delimiter-free alphabet (no tab / line terminator; a leading '#' would make the
/// line a comment, so '#' only occurs inside)
const GTF_PLAIN_TEXT: &[&str] = &["chr1", "a b", "\u{e9}", ".", "", "a;b", "a\"b", "x#y", "100%", "a\\b"];
const GTF_PLAIN: &[&str] = &["a", "b", "Z", "0", "9", "_", "-", ".", ":", "chr", "gene", " ", ";", "%", "\u{e9}", "=", "\""];
const GTF_KEYS: &[&str] = &["gene_id", "transcript_id", "k.1", "\u{e9}", "a:b", "a-b", "tag", "X", "note", "exon_number", "db", "k2", "k3", "k4"];
/// GTF attribute values: quotes, backslashes, terminators, spaces, empty
const GTF_VALUES: &[&str] = &["ndls", "", " ", "a b", "a;b", "a; b", "; ", ";", "a\"b", "\"", "\"\"", "\\", "a\\", "\\\\", "\\\"", "\"\\", "a\"; b \"c", "x\\\"y; z", "\u{e9}", "#", "%41", " lead", "trail ", "a\\\\\"b", "\"; k \"v"];
const GTF_VPIECES: &[&str] = &["a", "b", "1", " ", ";", "; ", "\"", "\\", "\\\"", "\u{e9}", "#", "=", ",", "%", "gene", "_"];
const SCORES: &[Option<f32>] = &[None, Some(0.0), Some(0.5), Some(-1.25), Some(1e3), Some(-0.0), Some(1.0), Some(16777216.0), Some(0.001), Some(-123456.79), Some(f32::MAX), Some(f32::MIN_POSITIVE), Some(1e-7), Some(f32::INFINITY), Some(f32::NEG_INFINITY), Some(f32::NAN)];
const STRANDS: &[Strand] = &[Strand::None, Strand::Forward, Strand::Reverse, Strand::Unknown];
const PHASES: &[Option<Phase>] = &[None, Some(Phase::Zero), Some(Phase::One), Some(Phase::Two)];
const POSITIONS: &[usize] = &[1, 2, 100, 65536, 4294967296, usize::MAX - 1, usize::MAX];

fn pieces(r: &mut Rng, alphabet: &[&str], max: usize) -> Vec<u8> { let n = r.below(max + 1); let mut v = Vec::new(); for _ in 0..n { v.extend_from_slice(r.pick(alphabet).as_bytes()); } v }
fn gff_text(r: &mut Rng) -> Vec<u8> { if r.chance(1, 2) { pieces(r, GFF_PLAIN, 4) } else if r.chance(1, 6) { r.pick(GFF_TEXT).as_bytes().to_vec() } else { let mut v = pieces(r, GFF_PLAIN, 2); v.extend(pieces(r, GFF_SPICY, 3)); v.extend(pieces(r, GFF_PLAIN, 1)); v } }

/// the hand-picked records: each adversarial value alone in each free-text position, then attribute shapes, then the grids
fn handpicked(gtf: bool) -> Vec<Feat> {
    let b = |s: &str| s.as_bytes().to_vec();
    let mut out = Vec::new();
    let (cols, vals): (&[&str], &[&str]) = if gtf { (GTF_PLAIN_TEXT, GTF_VALUES) } else { (GFF_TEXT, GFF_TEXT) };
    for t in cols { let mut f = Feat::plain(); f.seqid = b(t); out.push(f); }
    for t in cols { let mut f = Feat::plain(); f.source = b(t); out.push(f); }
    for t in cols { let mut f = Feat::plain(); f.ty = b(t); out.push(f); }
    for t in if gtf { GTF_KEYS } else { GFF_TEXT } { let mut f = Feat::plain(); f.attrs = vec![(b(t), vec![b("v")], false)]; out.push(f); }
    for t in vals { let mut f = Feat::plain(); f.attrs = vec![(b("ID"), vec![b(t)], false), (b("z"), vec![b("after")], false)]; out.push(f); }
    for t in vals { let mut f = Feat::plain(); f.attrs = vec![(b("Alias"), vec![b("x"), b(t), b(""), b("y")], false), (b("z"), vec![b("after")], false)]; out.push(f); }
    for t in vals { let mut f = Feat::plain(); f.attrs = vec![(b("ID"), vec![b(t)], false)]; out.push(f); }   // the value ends the line
    // multi-valued shapes: empty strings inside, order, duplicates, one-element arrays
    for vs in [vec!["a", "", "b"], vec!["", ""], vec![""], vec!["", "a"], vec!["a", ""], vec!["a"], vec!["z", "a", "m", "a", "b"], vec!["", "", ""], vec!["b", "a"]] {
        let mut f = Feat::plain(); f.attrs = vec![(b("Parent"), vs.iter().map(|s| b(s)).collect(), true)]; out.push(f.clone());
        f.attrs.insert(0, (b("ID"), vec![b("first")], false)); f.attrs.push((b("Note"), vec![b("last")], false)); out.push(f);
    }
    // attribute order (not sorted), many attributes followed by none
    let mut f = Feat::plain(); f.attrs = ["zeta", "alpha", "Mid", "ID", "Parent", "beta"].iter().map(|t| (b(t), vec![b(t), b("2")], false)).collect(); out.push(f);
    let mut f = Feat::plain(); f.attrs = (0..12).map(|i| (format!("t{}", (i * 7) % 12).into_bytes(), (0..=(i % 4)).map(|j| format!("v{j}").into_bytes()).collect(), false)).collect(); out.push(f);
    let mut f = Feat::plain(); f.attrs = vec![]; out.push(f);
    out.push(Feat::plain());
    // strands x phases x scores
    for s in STRANDS { for p in PHASES { for sc in SCORES { let mut f = Feat::plain(); f.strand = *s; f.phase = *p; f.score = *sc; out.push(f); } } }
    // positions: 1, large, start == end, start > end
    for (s, e) in [(1, 1), (1, usize::MAX), (usize::MAX, usize::MAX), (5, 3), (4294967296, 4294967297), (7, 7), (usize::MAX - 1, usize::MAX)] { let mut f = Feat::plain(); f.start = s; f.end = e; f.attrs = vec![]; out.push(f); }
    // CDS: the GFF3 writer demands a phase
    for p in PHASES { let mut f = Feat::plain(); f.ty = b("CDS"); f.phase = *p; out.push(f); }
    out
}

fn random_feat(r: &mut Rng, gtf: bool) -> Feat {
    let text = |r: &mut Rng| if gtf { if r.chance(1, 5) { r.pick(GTF_PLAIN_TEXT).as_bytes().to_vec() } else { pieces(r, GTF_PLAIN, 4) } } else { gff_text(r) };
    let mut f = Feat::plain();
    f.seqid = text(r); if gtf && f.seqid.starts_with(b"#") { f.seqid.insert(0, b'c'); }
    f.source = text(r); f.ty = if r.chance(1, 8) { b"CDS".to_vec() } else { text(r) };
    f.start = if r.chance(1, 2) { *r.pick(POSITIONS) } else { 1 + r.below(1_000_000) };
    f.end = if r.chance(1, 4) { f.start } else if r.chance(1, 2) { *r.pick(POSITIONS) } else { f.start.saturating_add(r.below(10_000)) };
    f.score = if r.chance(1, 2) { *r.pick(SCORES) } else { Some((r.below(20001) as f32 - 10000.0) / 8.0) };
    f.strand = *r.pick(STRANDS); if gtf && f.strand == Strand::Unknown && r.chance(3, 4) { f.strand = Strand::Reverse; }
    f.phase = *r.pick(PHASES); if f.ty == b"CDS" && f.phase.is_none() && r.chance(7, 8) { f.phase = Some(Phase::One); }
    let n = *r.pick(&[0usize, 0, 1, 1, 2, 3, 5, 12]);
    f.attrs.clear();
    for _ in 0..n {
        let tag = if gtf { r.pick(GTF_KEYS).as_bytes().to_vec() } else if r.chance(2, 3) { let mut t = pieces(r, GFF_PLAIN, 3); if t.is_empty() { t = b"t".to_vec(); } t } else { gff_text(r) };
        if f.attrs.iter().any(|(t, _, _)| *t == tag) { continue; }
        let k = *r.pick(&[1usize, 1, 1, 2, 3, 4]);
        let vals: Vec<Vec<u8>> = (0..k).map(|_| if r.chance(1, 6) { Vec::new() } else if gtf { if r.chance(1, 4) { r.pick(GTF_VALUES).as_bytes().to_vec() } else { pieces(r, GTF_VPIECES, 5) } } else { gff_text(r) }).collect();
        f.attrs.push((tag, vals, r.chance(1, 4)));
    }
    f
}

fn bed_handpicked() -> Vec<Vec<BedRec>> {
    let s = |x: &str| Ov::S(x.as_bytes().to_vec());
    let mut files: Vec<Vec<BedRec>> = Vec::new();
    let mut one = |f: &dyn Fn(&mut BedRec)| { let mut r = BedRec::plain(); f(&mut r); files.push(vec![r]); };
    for c in ["chr1", "X", "a_b", "0", &"A".repeat(255), &"A".repeat(256), "", "chr 1", "chr-1", "\u{e9}", "a\tb"] { one(&|r| r.chrom = c.as_bytes().to_vec()); }
    for (st, e) in [(1, None), (1, Some(1)), (5, Some(5)), (1000, Some(2000)), (usize::MAX, Some(usize::MAX)), (usize::MAX, None), (7, Some(3)), (2, Some(1))] { one(&|r| { r.start = st; r.end = e; }); }
    for n in [None, Some("n"), Some("x y"), Some("."), Some(" "), Some("#n"), Some("a;b,c"), Some("~"), Some(&"n".repeat(255)[..]), Some(&"n".repeat(256)[..]), Some(""), Some("\u{e9}"), Some("a\tb"), Some("a\nb")] { one(&|r| r.name = n.map(|x| x.as_bytes().to_vec())); }
    for sc in [0u16, 1, 500, 1000, 1001, 65535] { one(&|r| r.score = sc); }
    for sd in [None, Some(BStrand::Forward), Some(BStrand::Reverse)] { one(&|r| r.strand = sd); }
    let others: Vec<Vec<Ov>> = vec![vec![], vec![s("")], vec![s("a")], vec![s(""), s("")], vec![s("a"), s(""), s("b")], vec![s("x"), s("")], vec![Ov::I(-5), Ov::U(u64::MAX), Ov::F(0.5), Ov::C(b'x'), s("s p")], vec![Ov::I(i64::MIN), Ov::I(i64::MAX)],
        vec![Ov::F(-1.25), Ov::F(1e3), Ov::F(0.0)], vec![Ov::C(b' '), Ov::C(b'~')],
        vec![s("name"), Ov::U(960), Ov::C(b'+'), Ov::U(1000), Ov::U(5000), s("255,0,0"), Ov::U(2), s("567,488,"), s("0,3512,")],          // BED3 + 9 = BED12
        vec![Ov::U(1000), Ov::U(5000), s("0"), Ov::U(2), s("567,488,"), s("0,3512,")],                                                   // BED6 + 6 = BED12
        (0..15).map(|i| s(&format!("c{i}"))).collect(), (0..30).map(|i| if i % 3 == 0 { s("") } else { Ov::I(i) }).collect(),
        vec![s("a\tb")], vec![Ov::C(b'\t')], vec![s("\u{e9}")], vec![s("a\nb")], vec![s("."), s("0"), s("+")]];
    for o in &others { one(&|r| r.other = o.clone()); }
    // state reuse: many optional columns FOLLOWED by fewer / none (and the other way round)
    let mk = |k: usize, tag: usize| { let mut r = BedRec::plain(); r.other = (0..k).map(|i| s(&format!("f{tag}_{i}"))).collect(); r.start = 1 + tag; r.end = Some(100 + tag); r };
    files.push([9usize, 0, 3, 0, 12, 1, 0, 0, 2].iter().enumerate().map(|(t, k)| mk(*k, t)).collect());
    files.push([0usize, 5, 0].iter().enumerate().map(|(t, k)| mk(*k, t)).collect());
    files.push([20usize, 1].iter().enumerate().map(|(t, k)| mk(*k, t)).collect());
    files.push(vec![{ let mut r = mk(3, 0); r.other = vec![s("long-long-long-long"), s(""), s("")]; r }, mk(0, 1), { let mut r = mk(0, 2); r.other = vec![s("")]; r }, mk(0, 3)]);
    files.push(others.iter().enumerate().map(|(t, o)| { let mut r = mk(0, t); r.other = o.clone(); r }).collect());
    files
}

fn random_bed(r: &mut Rng) -> BedRec {
    const CH: &[&str] = &["chr", "1", "2", "X", "_", "a", "Z", "0", "scaffold"];
    const NM: &[&str] = &["a", "b", " ", ".", "#", ";", ",", "~", "gene", "1", "-", "+"];
    let mut b = BedRec::plain();
    b.chrom = pieces(r, CH, 3); if b.chrom.is_empty() && r.chance(9, 10) { b.chrom = b"c".to_vec(); }
    b.start = if r.chance(1, 3) { *r.pick(POSITIONS) } else { 1 + r.below(1_000_000) };
    b.end = if r.chance(1, 6) { None } else if r.chance(1, 4) { Some(b.start) } else { Some(b.start.saturating_add(r.below(100_000))) };
    b.name = if r.chance(1, 5) { None } else { let n = pieces(r, NM, 4); if n.is_empty() { Some(b"n".to_vec()) } else { Some(n) } };
    b.score = if r.chance(1, 2) { *r.pick(&[0u16, 1, 999, 1000]) } else { r.below(1001) as u16 };
    b.strand = *r.pick(&[None, Some(BStrand::Forward), Some(BStrand::Reverse)]);
    let k = *r.pick(&[0usize, 0, 0, 1, 2, 3, 6, 9, 14]);
    b.other = (0..k).map(|_| match r.below(8) { 0 => Ov::I(r.next() as i64 - (1 << 40)), 1 => Ov::U(r.next()), 2 => Ov::F((r.below(2001) as f64 - 1000.0) / 4.0), 3 => Ov::C(b' ' + r.below(95) as u8), 4 => Ov::S(Vec::new()), _ => Ov::S(pieces(r, NM, 4)) }).collect();
    b
}

// ------------------------------------------------------------------------------------------------------------------ entry
pub fn feature_roundtrip(tier: &str) -> Result<String, String> {
    let thorough = tier == "thorough";
    let n_random = if thorough { 6000 } else { 400 };
    let mut log = Log::default();
    let (mut sg, mut st, mut sb) = (Stats::default(), Stats::default(), [Stats::default(), Stats::default(), Stats::default(), Stats::default()]);
    let mut files = 0u64;
    std::panic::set_hook(Box::new(|_| {}));
    let b = |s: &str| s.as_bytes().to_vec();

    // ---------------------------------------------------------------- GFF3
    let hp = handpicked(false);
    let mut gff_files: Vec<(String, Vec<Item>)> = Vec::new();
    for (i, f) in hp.iter().enumerate() { gff_files.push((format!("hand-picked record {i} alone"), vec![Item::Rec(f.clone())])); }
    // directives and comments, alone and mixed with records
    let dirs: Vec<Item> = vec![
        Item::Dir(b("gff-version"), Some(DirVal::Version(GffVersion::default()))), Item::Dir(b("gff-version"), Some(DirVal::Version("3.1.26".parse().unwrap()))), Item::Dir(b("gff-version"), Some(DirVal::Version("3.1".parse().unwrap()))),
        Item::Dir(b("gff-version"), Some(DirVal::Text(b("3")))),
        Item::Dir(b("sequence-region"), Some(DirVal::Region(SequenceRegion::new("chr1", pos(1), pos(1497228))))), Item::Dir(b("sequence-region"), Some(DirVal::Region(SequenceRegion::new("ctg_123.1", pos(8), pos(8))))),
        Item::Dir(b("sequence-region"), Some(DirVal::Region(SequenceRegion::new("sq0", pos(1), pos(usize::MAX))))),
        Item::Dir(b("genome-build"), Some(DirVal::Build(GenomeBuild::new("NCBI", "B36")))),
        Item::Dir(b("species"), Some(DirVal::Text(b("https://www.ncbi.nlm.nih.gov/Taxonomy/Browser/wwwtax.cgi?id=6239")))), Item::Dir(b("feature-ontology"), Some(DirVal::Text(b("URI with spaces")))),
        Item::Dir(b("custom"), Some(DirVal::Text(b("")))), Item::Dir(b("custom"), Some(DirVal::Text(b(" leading space")))), Item::Dir(b("custom"), Some(DirVal::Text(b("a\tb")))), Item::Dir(b("custom"), Some(DirVal::Text(b("\u{e9}")))),
        Item::Dir(b("#"), None), Item::Dir(b("custom-without-value"), None), Item::Dir(b("x"), Some(DirVal::Version(GffVersion::default()))) /* key/value mismatch: the writer rejects it */,
        Item::Comment(b("noodles")), Item::Comment(b("")), Item::Comment(b(" a comment with spaces ")), Item::Comment(b("with\ttab")), Item::Comment(b("!shebang-like")), Item::Comment(b("\u{e9}")),
    ];
    for (i, d) in dirs.iter().enumerate() { gff_files.push((format!("directive/comment {i} alone"), vec![d.clone()])); }
    // a sequence id that needs escaping, in the directive that declares it
    gff_files.push(("sequence-region with a reserved character".into(), vec![Item::Dir(b("sequence-region"), Some(DirVal::Region(SequenceRegion::new("chr 1", pos(1), pos(10)))))]));
    { let mut v = vec![dirs[0].clone(), dirs[4].clone()]; for (i, f) in hp.iter().take(6).enumerate() { v.push(Item::Rec(f.clone())); v.push(dirs[(7 + i) % dirs.len()].clone()); } v.push(Item::Dir(b("#"), None)); v.push(Item::Rec(Feat::plain())); gff_files.push(("directives, comments and records mixed".into(), v)); }
    // ##FASTA: record_bufs() stops there
    gff_files.push(("records, ##FASTA, sequence".into(), vec![dirs[0].clone(), Item::Rec(Feat::plain()), Item::Rec(hp[1].clone()), Item::Dir(b("FASTA"), None), Item::Raw(b(">chr1\nACGT\nACGT\n"))]));
    // the hand-picked records again, batched (reader state is reused from line to line)
    for (k, chunk) in hp.chunks(9).enumerate() { gff_files.push((format!("hand-picked records, batch {k}"), chunk.iter().cloned().map(Item::Rec).collect())); }
    let mut r = Rng::new(0x6FF3);
    for k in 0..n_random {
        let n = 1 + r.below(6);
        let mut v = Vec::new();
        for _ in 0..n { if r.chance(1, 6) { v.push(r.pick(&dirs).clone()); } v.push(Item::Rec(random_feat(&mut r, false))); }
        gff_files.push((format!("random file {k}"), v));
    }
    for (label, items) in &gff_files { files += 1; guarded(&mut log, "GFF3", label, |log, stage| gff_file(label, items, log, &mut sg, stage)); }

    // ---------------------------------------------------------------- GTF
    let hp = handpicked(true);
    let mut gtf_files: Vec<(String, Vec<Item>)> = Vec::new();
    for (i, f) in hp.iter().enumerate() { gtf_files.push((format!("hand-picked record {i} alone"), vec![Item::Rec(f.clone())])); }
    let comments: Vec<Item> = vec![Item::Comment(b("noodles")), Item::Comment(b("")), Item::Comment(b("#double")), Item::Comment(b(" spaced \"quoted\" ")), Item::Comment(b("with\ttab"))];
    for (i, c) in comments.iter().enumerate() { gtf_files.push((format!("comment {i} alone"), vec![c.clone()])); }
    for (k, chunk) in hp.chunks(9).enumerate() { let mut v: Vec<Item> = chunk.iter().cloned().map(Item::Rec).collect(); v.insert(v.len() / 2, comments[k % comments.len()].clone()); gtf_files.push((format!("hand-picked records, batch {k}"), v)); }
    let mut r = Rng::new(0x67F);
    for k in 0..n_random {
        let n = 1 + r.below(6);
        let mut v = Vec::new();
        for _ in 0..n { if r.chance(1, 8) { v.push(r.pick(&comments).clone()); } v.push(Item::Rec(random_feat(&mut r, true))); }
        gtf_files.push((format!("random file {k}"), v));
    }
    for (label, items) in &gtf_files { files += 1; guarded(&mut log, "GTF", label, |log, stage| gtf_file(label, items, log, &mut st, stage)); }

    // ---------------------------------------------------------------- BED3..BED6 (+ optional columns up to BED12 and beyond)
    let mut bed_files: Vec<(String, Vec<BedRec>)> = bed_handpicked().into_iter().enumerate().map(|(i, f)| (format!("hand-picked file {i}"), f)).collect();
    let mut r = Rng::new(0xBED);
    for k in 0..n_random { let n = 1 + r.below(6); bed_files.push((format!("random file {k}"), (0..n).map(|_| random_bed(&mut r)).collect())); }
    for (label, recs) in &bed_files {
        files += 4;
        guarded(&mut log, "BED3", label, |log, stage| bed_file_3(label, recs, log, &mut sb[0], stage));
        guarded(&mut log, "BED4", label, |log, stage| bed_file_4(label, recs, log, &mut sb[1], stage));
        guarded(&mut log, "BED5", label, |log, stage| bed_file_5(label, recs, log, &mut sb[2], stage));
        guarded(&mut log, "BED6", label, |log, stage| bed_file_6(label, recs, log, &mut sb[3], stage));
    }
    let _ = std::panic::take_hook();

    // ---------------------------------------------------------------- vacuity guard
    let mut cases = 0u64;
    let had_failures = !log.order.is_empty();
    for (name, s) in [("GFF3", &sg), ("GTF", &st), ("BED3", &sb[0]), ("BED4", &sb[1]), ("BED5", &sb[2]), ("BED6", &sb[3])] {
        cases += s.generated + s.lines;
        if s.accepted == 0 || s.accepted * 2 < s.generated { log.fail(&format!("{name} vacuity accepted"), "", "", || format!("{name}: VACUOUS: the writer accepted only {} of {} generated records ({} rejected)", s.accepted, s.generated, s.rejected)); }
        // with other failures present (reader errors, broken lines) a low count is a consequence, not a harness defect
        if s.compared == 0 || (!had_failures && s.compared + s.broken < s.accepted) { log.fail(&format!("{name} vacuity compared"), "", "", || format!("{name}: VACUOUS: only {} of {} accepted records were read back and compared ({} excluded for a broken line)", s.compared, s.accepted, s.broken)); }
    }
    let _ = files;
    if log.order.is_empty() { Ok(format!("\"cases\":{cases}")) } else { Err(format!("FAILURES\n{}", log.lines().join("\n"))) }
}
