//! C12 BOUNDED-NATIVE stand-in (never counted as proved): every reader must return the same headers, records, bytes and errors for a
//! given input no matter how the underlying byte source delivers it — one byte at a time, in short reads, cut once at any offset,
//! through a BufReader of any capacity, with spurious ErrorKind::Interrupted.  The oracle is the reader's own answer on the whole
//! slice; the delivery plans are a fixed function of the tier.
use std::{collections::BTreeMap, io::{self, BufReader, Read, Write}};
use noodles_bgzf as bgzf;
use noodles_sam as sam;
use noodles_vcf as vcf;
use noodles_csi as csi;
use noodles_util::{alignment, variant};
use crate::truncation::{alignment_set, repo, variant_set, write_alignment, write_variant};

#[derive(Clone, Copy, Debug)]
enum Plan { /* at most k bytes per read */ Fixed(usize), /* the first read stops at offset i, then everything */ CutOnce(usize), /* Interrupted on a fixed pseudo-random third of the calls (seed), at most 300 times in all, k bytes otherwise: a source that interrupts in lockstep for ever starves ANY retry loop, std's included */ InterruptSome(u64, usize), /* Interrupted on call j (0-based), k bytes otherwise */ InterruptAt(usize, usize) }
struct Src<'a> { data: &'a [u8], pos: usize, plan: Plan, calls: usize, interrupts: usize }
impl Read for Src<'_> {
    fn read(&mut self, buf: &mut [u8]) -> io::Result<usize> {
        let c = self.calls; self.calls += 1;
        let k = match self.plan { Plan::Fixed(k) => k, Plan::CutOnce(i) => if self.pos < i { i - self.pos } else { usize::MAX }, Plan::InterruptSome(seed, k) => { let mut x = (seed ^ (c as u64).wrapping_mul(0x9E3779B97F4A7C15)) | 1; x ^= x << 13; x ^= x >> 7; x ^= x << 17; if self.interrupts < 300 && x % 3 == 0 { self.interrupts += 1; return Err(io::Error::new(io::ErrorKind::Interrupted, "spurious")); } k } Plan::InterruptAt(j, k) => { if c == j { return Err(io::Error::new(io::ErrorKind::Interrupted, "spurious")); } k } };
        let n = k.min(buf.len()).min(self.data.len() - self.pos); buf[..n].copy_from_slice(&self.data[self.pos..self.pos + n]); self.pos += n; Ok(n)
    }
}

pub(crate) type Target = (&'static str, Vec<u8>, /* needs BufRead: wrapped in BufReader */ bool, Box<dyn Fn(&mut dyn Read, Option<usize>) -> Result<Vec<String>, String>>);

fn lines_of<T: std::fmt::Debug, E: std::fmt::Display>(it: impl Iterator<Item = Result<T, E>>, limit: usize) -> Result<Vec<String>, String> {
    let mut v = Vec::new(); for r in it { match r { Ok(x) => v.push(format!("{x:?}")), Err(e) => { v.push(format!("ERROR {e}")); break; } } if v.len() > limit { v.push("(more than the limit)".into()); break; } } Ok(v)
}
macro_rules! buffered { ($r:expr, $cap:expr) => { BufReader::with_capacity($cap.unwrap_or(8192), $r) }; }

pub(crate) fn targets() -> Result<Vec<Target>, String> {
    use alignment::io::{CompressionMethod as ACm, Format as AF};
    use variant::io::{CompressionMethod as VCm, Format as VF};
    let mut t: Vec<Target> = Vec::new();
    let (ah, arecs) = alignment_set(14)?; let (vh, vrecs) = variant_set(14)?;
    // BGZF bytes
    { let mut w = bgzf::io::Writer::new(Vec::new()); for ch in b"noodles-bgzf chunked read test\n".repeat(40).chunks(333) { w.write_all(ch).map_err(|e| e.to_string())?; w.flush().map_err(|e| e.to_string())?; } let f = w.finish().map_err(|e| e.to_string())?;
      t.push(("BGZF bytes", f, false, Box::new(|r, _| { let mut rd = bgzf::io::Reader::new(r); let mut out = Vec::new(); match rd.read_to_end(&mut out) { Ok(_) => Ok(vec![format!("{} bytes, sum {}", out.len(), out.iter().map(|b| *b as u64).sum::<u64>())]), Err(e) => Ok(vec![format!("{} bytes then ERROR {e}", out.len())]) } }))); }
    // alignment formats through the explicit-format generic reader (detection is C20's business)
    for (name, fmt, cm, text) in [("BAM", AF::Bam, Some(ACm::Bgzf), false), ("raw BAM", AF::Bam, None, false), ("CRAM", AF::Cram, None, false), ("SAM (CRLF)", AF::Sam, None, true), ("SAM.gz", AF::Sam, Some(ACm::Bgzf), false)] {
        let (mut f, _) = write_alignment(fmt, cm, &ah, &arecs)?;
        if name == "SAM (CRLF)" { f = String::from_utf8(f).map_err(|e| e.to_string())?.replace('\n', "\r\n").into_bytes(); }
        t.push((name, f, text, Box::new(move |r, cap| {
            let read = |r: &mut dyn Read| -> Result<Vec<String>, String> { let mut rd = match alignment::io::reader::Builder::default().set_format(fmt).set_compression_method(cm).set_reference_sequence_repository(repo()).build_from_reader(r) { Ok(x) => x, Err(e) => return Ok(vec![format!("ERROR build {e}")]) };
                let h = match rd.read_header() { Ok(h) => h, Err(e) => return Ok(vec![format!("ERROR header {e}")]) };
                let mut v = vec![format!("{} reference sequences, {} comments", h.reference_sequences().len(), h.comments().len())];
                for r in rd.records(&h) { match r.and_then(|r| sam::alignment::RecordBuf::try_from_alignment_record(&h, r.as_ref())) { Ok(x) => v.push(format!("{x:?}")), Err(e) => { v.push(format!("ERROR {e}")); break; } } if v.len() > 100 { break; } } Ok(v) };
            if text { read(&mut buffered!(r, cap)) } else { read(r) } })));
    }
    for (name, fmt, cm, text) in [("BCF", VF::Bcf, Some(VCm::Bgzf), false), ("raw BCF", VF::Bcf, None, false), ("VCF (CRLF)", VF::Vcf, None, true), ("VCF.gz", VF::Vcf, Some(VCm::Bgzf), false)] {
        let (mut f, _) = write_variant(fmt, cm, &vh, &vrecs)?;
        if name == "VCF (CRLF)" { f = String::from_utf8(f).map_err(|e| e.to_string())?.replace('\n', "\r\n").into_bytes(); }
        t.push((name, f, text, Box::new(move |r, cap| {
            let read = |r: &mut dyn Read| -> Result<Vec<String>, String> { let mut rd = match variant::io::reader::Builder::default().set_format(fmt).set_compression_method(cm).build_from_reader(r) { Ok(x) => x, Err(e) => return Ok(vec![format!("ERROR build {e}")]) };
                let h = match rd.read_header() { Ok(h) => h, Err(e) => return Ok(vec![format!("ERROR header {e}")]) };
                let mut v = vec![format!("{} samples", h.sample_names().len())];
                for r in rd.records(&h) { match r.and_then(|r| vcf::variant::RecordBuf::try_from_variant_record(&h, r.as_ref())) { Ok(x) => v.push(format!("{x:?}")), Err(e) => { v.push(format!("ERROR {e}")); break; } } if v.len() > 100 { break; } } Ok(v) };
            if text { read(&mut buffered!(r, cap)) } else { read(r) } })));
    }
    // lazy SAM / VCF records (their own field-by-field readers)
    { let (f, _) = write_alignment(AF::Sam, None, &ah, &arecs)?; let f = String::from_utf8(f).map_err(|e| e.to_string())?.replace('\n', "\r\n").into_bytes();
      t.push(("SAM lazy records (CRLF)", f, true, Box::new(|r, cap| { let mut rd = sam::io::Reader::new(buffered!(r, cap)); if let Err(e) = rd.read_header() { return Ok(vec![format!("ERROR header {e}")]); } let mut rec = sam::Record::default(); let mut v = Vec::new();
          loop { match rd.read_record(&mut rec) { Ok(0) => break, Ok(n) => v.push(format!("{n} {:?} {:?} {:?} {:?}", rec.name(), bstr::BStr::new(rec.sequence().as_ref()), bstr::BStr::new(rec.quality_scores().as_ref()), bstr::BStr::new(rec.data().as_ref()))), Err(e) => { v.push(format!("ERROR {e}")); break; } } } Ok(v) }))); }
    { let (f, _) = write_variant(VF::Vcf, None, &vh, &vrecs)?; let mut f = String::from_utf8(f).map_err(|e| e.to_string())?.replace('\n', "\r\n"); f.push_str("sq0\t1\t\u{e9}\u{65e5}\tA\t.\t.\tPASS\tXS=\u{e9}t\u{e9}\tGT\t0/1\t1/1\r\n"); let f = f.into_bytes();
      t.push(("VCF lazy records (CRLF, multibyte)", f, true, Box::new(|r, cap| { let mut rd = vcf::io::Reader::new(buffered!(r, cap)); if let Err(e) = rd.read_header() { return Ok(vec![format!("ERROR header {e}")]); } let mut rec = vcf::Record::default(); let mut v = Vec::new();
          loop { match rd.read_record(&mut rec) { Ok(0) => break, Ok(n) => v.push(format!("{n} {:?} {:?} {:?} {:?}", rec.reference_sequence_name(), rec.ids().as_ref(), rec.info().as_ref(), rec.samples().as_ref())), Err(e) => { v.push(format!("ERROR {e}")); break; } } } Ok(v) }))); }
    // FASTA / FASTQ / GFF3 / GTF / BED text
    t.push(("FASTA (CRLF)", b">sq0 first\r\nACGTACGTAC\r\nNNNNNN\r\n\r\n>sq1\r\nAC\r\n>sq2 d e\r\nGGGGGGGGGG\r\nGG\r\n".to_vec(), true, Box::new(|r, cap| { let mut rd = noodles_fasta::io::Reader::new(buffered!(r, cap)); lines_of(rd.records(), 50) })));
    t.push(("FASTA (LF)", b">sq0 first\nACGTACGTAC\nNNNNNN\n>sq1\nAC\n".to_vec(), true, Box::new(|r, cap| { let mut rd = noodles_fasta::io::Reader::new(buffered!(r, cap)); lines_of(rd.records(), 50) })));
    t.push(("FASTQ (CRLF)", b"@r1\r\nACGT\r\n+\r\nII@+\r\n@r2 d e\r\nAC\r\n+r2\r\nII\r\n".to_vec(), true, Box::new(|r, cap| { let mut rd = noodles_fastq::io::Reader::new(buffered!(r, cap)); lines_of(rd.records(), 50) })));
    t.push(("GFF3 (CRLF)", b"##gff-version 3\r\n#c\r\nsq0\tsrc\tgene\t1\t9\t.\t+\t.\tID=g1;Alias=a,,b\r\n\r\nsq0\tsrc\texon\t2\t5\t0.5\t-\t0\tParent=g1;Note=x%3By \r\n".to_vec(), true, Box::new(|r, cap| { let mut rd = noodles_gff::io::Reader::new(buffered!(r, cap)); lines_of(rd.line_bufs(), 50) })));
    t.push(("GTF (CRLF)", b"#c\r\nsq0\tsrc\tgene\t1\t9\t.\t+\t.\tgene_id \"g 1\"; note \"a\\\"b\";\r\nsq0\tsrc\texon\t2\t5\t0.5\t-\t0\tgene_id \"g1\";\r\n".to_vec(), true, Box::new(|r, cap| { let mut rd = noodles_gtf::io::Reader::new(buffered!(r, cap)); lines_of(rd.line_bufs(), 50) })));
    t.push(("BED3 (CRLF)", b"# c\r\nsq0\t0\t9\tx\t\r\nsq1\t5\t9\r\n#d\r\nsq2\t1\t2\ta\tb\tc\r\n".to_vec(), true, Box::new(|r, cap| { let mut rd = noodles_bed::io::Reader::<3, _>::new(buffered!(r, cap)); let mut rec = noodles_bed::Record::<3>::default(); let mut v = Vec::new();
        loop { match rd.read_record(&mut rec) { Ok(0) => break, Ok(n) => v.push(format!("{n} {:?} {:?} {:?} {:?}", rec.reference_sequence_name(), rec.feature_start().ok(), rec.feature_end().map(|e| e.ok()), rec.other_fields().iter().map(|f| f.to_string()).collect::<Vec<_>>())), Err(e) => { v.push(format!("ERROR {e}")); break; } } } Ok(v) })));
    // index files
    { let ix = bgzf::gzi::Index::from(vec![(100u64, 65280u64), (4000, 130560), (9000, 190000)]); let mut w = bgzf::gzi::io::Writer::new(Vec::new()); w.write_index(&ix).map_err(|e| e.to_string())?;
      t.push(("gzi index", w.into_inner(), false, Box::new(|r, _| { let mut rd = bgzf::gzi::io::Reader::new(r); Ok(vec![match rd.read_index() { Ok(i) => format!("{i:?}"), Err(e) => format!("ERROR {e}") }]) }))); }
    { use csi::binning_index::{index::reference_sequence::{bin::Chunk, index::{BinnedIndex, LinearIndex}}, Indexer};
      let vp = |c: u64, u: u16| bgzf::VirtualPosition::try_from((c, u)).unwrap(); let p = |n: usize| noodles_core::Position::new(n).unwrap();
      let feed = |mut add: Box<dyn FnMut(Option<(usize, noodles_core::Position, noodles_core::Position, bool)>, Chunk) -> Result<(), String> + '_>| -> Result<(), String> { let mut c = 100u64;
          for (id, s, e) in [(0usize, 1usize, 100usize), (0, 50, 20000), (0, 16385, 16400), (0, 70000, 70010), (2, 5, 9), (2, 600000, 600100)] { add(Some((id, p(s), p(e), true)), Chunk::new(vp(c, 0), vp(c + 40, 7)))?; c += 40; }
          add(None, Chunk::new(vp(c, 0), vp(c + 10, 0))) };
      let mut bi = Indexer::<LinearIndex>::new(14, 5); feed(Box::new(|a, b| bi.add_record(a, b).map_err(|e| e.to_string())))?; let bai = bi.build(3);
      let mut w = noodles_bam::bai::io::Writer::new(Vec::new()); w.write_index(&bai).map_err(|e| e.to_string())?;
      t.push(("BAI index", w.into_inner(), false, Box::new(|r, _| { let mut rd = noodles_bam::bai::io::Reader::new(r); Ok(vec![match rd.read_index() { Ok(i) => format!("{i:?}"), Err(e) => format!("ERROR {e}") }]) })));
      let mut ci = Indexer::<BinnedIndex>::new(14, 5); feed(Box::new(|a, b| ci.add_record(a, b).map_err(|e| e.to_string())))?; let csi_ix = ci.build(3);
      let mut w = csi::io::Writer::new(Vec::new()); w.write_index(&csi_ix).map_err(|e| e.to_string())?; let f = w.into_inner().finish().map_err(|e| e.to_string())?;
      t.push(("CSI index", f, false, Box::new(|r, _| { let mut rd = csi::io::Reader::new(r); Ok(vec![match rd.read_index() { Ok(i) => format!("{i:?}"), Err(e) => format!("ERROR {e}") }]) })));
      let mut ti = Indexer::<LinearIndex>::new(14, 5).set_header(csi::binning_index::index::header::Builder::vcf().set_reference_sequence_names(["sq0", "empty", "sq2"].iter().map(|s| bstr::BString::from(*s)).collect()).build()); feed(Box::new(|a, b| ti.add_record(a, b).map_err(|e| e.to_string())))?; let tbx = ti.build(3);
      let mut w = noodles_tabix::io::Writer::new(Vec::new()); w.write_index(&tbx).map_err(|e| e.to_string())?; let f = w.into_inner().finish().map_err(|e| e.to_string())?;
      t.push(("tabix index", f, false, Box::new(|r, _| { let mut rd = noodles_tabix::io::Reader::new(r); Ok(vec![match rd.read_index() { Ok(i) => format!("{i:?}"), Err(e) => format!("ERROR {e}") }]) }))); }
    t.push(("fai index (CRLF)", b"sq0\t16\t11\t10\t12\r\nsq1\t2\t38\t2\t4\r\n".to_vec(), true, Box::new(|r, cap| { let mut rd = noodles_fasta::fai::io::Reader::new(buffered!(r, cap)); Ok(vec![match rd.read_index() { Ok(i) => format!("{i:?}"), Err(e) => format!("ERROR {e}") }]) })));
    Ok(t)
}

pub fn chunked_readers(tier: &str) -> Result<String, String> {
    let ts = targets()?;
    let mut fails: BTreeMap<String, String> = BTreeMap::new();
    let mut cases = 0u64;
    std::panic::set_hook(Box::new(|_| {}));
    for (name, data, text, run) in &ts {
        let want = match std::panic::catch_unwind(std::panic::AssertUnwindSafe(|| run(&mut &data[..], None))) { Ok(Ok(w)) => w, _ => { fails.insert(format!("{name} baseline"), format!("chunked reads [{name}]: the reader fails or panics on the whole slice")); continue; } };
        if want.iter().any(|l| l.contains("ERROR")) || want.is_empty() { fails.insert(format!("{name} baseline"), format!("chunked reads [{name}]: the whole-slice read of the written file already reports {:?}", want.iter().find(|l| l.contains("ERROR")))); continue; }
        let mut plans: Vec<(Plan, Option<usize>)> = Vec::new();
        for k in [1usize, 2, 3, 5, 7, 16, 4096] { plans.push((Plan::Fixed(k), None)); }
        let stride = if data.len() <= 3000 || tier == "thorough" { 1 } else { 7 };
        for i in (1..data.len()).step_by(stride) { plans.push((Plan::CutOnce(i), None)); }
        if *text { for cap in [1usize, 2, 3, 4, 5, 7, 8, 16, 64] { plans.push((Plan::Fixed(usize::MAX), Some(cap))); plans.push((Plan::Fixed(3), Some(cap))); } }
        for (seed, k) in [(1u64, 1usize), (2, 7), (3, 4096), (4, usize::MAX), (5, 3)] { plans.push((Plan::InterruptSome(seed, k), None)); if *text { plans.push((Plan::InterruptSome(seed, k), Some(5))); } }
        let jmax = if tier == "thorough" { 400 } else { 120 };
        for j in 0..jmax.min(data.len() / 16 + 3) { plans.push((Plan::InterruptAt(j, 16), None)); }
        for j in 0..jmax.min(data.len() + 2) { plans.push((Plan::InterruptAt(j, 1), if *text { Some(3) } else { None })); }
        for (plan, cap) in plans {
            cases += 1;
            let r = std::panic::catch_unwind(std::panic::AssertUnwindSafe(|| { let mut s = Src { data, pos: 0, plan, calls: 0, interrupts: 0 }; run(&mut s, cap) }));
            let kind = match plan { Plan::Fixed(_) if cap.is_some() => "BufReader capacity", Plan::Fixed(_) => "short reads", Plan::CutOnce(_) => "a read cut once", Plan::InterruptSome(..) | Plan::InterruptAt(..) => "spurious Interrupted" };
            match r { Err(_) => { fails.entry(format!("{name} {kind} panic")).or_insert_with(|| format!("chunked reads [{name}]: PANICS with {kind} ({plan:?}, BufReader {cap:?})")); }
                Ok(Err(e)) => { fails.entry(format!("{name} {kind} harness")).or_insert_with(|| format!("chunked reads [{name}]: {e}")); }
                Ok(Ok(got)) => if got != want { let i = got.iter().zip(want.iter()).position(|(a, b)| a != b).unwrap_or(got.len().min(want.len()));
                    fails.entry(format!("{name} {kind}")).or_insert_with(|| format!("chunked reads [{name}]: with {kind} ({plan:?}, BufReader {cap:?}) item {i} is {} instead of {}", got.get(i).map(|s| s.chars().take(160).collect::<String>()).unwrap_or("(nothing)".into()), want.get(i).map(|s| s.chars().take(160).collect::<String>()).unwrap_or("(nothing)".into()))); } }
        }
    }
    let _ = std::panic::take_hook();
    if fails.is_empty() { Ok(format!("\"cases\":{cases}")) } else { Err(format!("FAILURES\n{}", fails.values().cloned().collect::<Vec<_>>().join("\n"))) }
}
