//! C14 BOUNDED-NATIVE stand-in (never counted as proved): writers never hide a sink failure and tolerate short writes.
//! For every writer: (a) a destination that accepts only part of each buffer, or reports ErrorKind::Interrupted now and then, must
//! end up with byte-identical output (CRAM: an equal decoded file — its block order follows HashMap iteration) and no call may
//! fail; (b) a destination whose j-th write call fails (and every later one) must make SOME write / flush / finish call of the
//! noodles writer return THAT error (same kind, same message) — for every j.  Writers are used with their explicit finish; the
//! drop path of bgzf::io::Writer is covered by unit bgzf.writer.
use std::{cell::RefCell, collections::BTreeMap, io::{self, Write}, rc::Rc, sync::{Arc, Mutex}};
use noodles_bgzf as bgzf;
use noodles_sam as sam;
use noodles_vcf as vcf;
use noodles_csi as csi;
use sam::alignment::io::Write as _;
use vcf::variant::io::Write as _;
use crate::truncation::{alignment_set, repo, variant_set};

#[derive(Clone, Copy, Debug)]
enum Mode { All, Short(usize), Interrupt(u64, usize), FailAt(usize) }
#[derive(Default)]
struct State { out: Vec<u8>, writes: usize, interrupts: usize, failed: bool }
#[derive(Clone)]
struct Sink { st: Arc<Mutex<State>>, mode: Mode }
impl Write for Sink {
    fn write(&mut self, b: &[u8]) -> io::Result<usize> {
        let mut s = self.st.lock().unwrap(); let c = s.writes; s.writes += 1;
        if b.is_empty() { return Ok(0); }
        let k = match self.mode { Mode::All => b.len(), Mode::Short(k) => k,
            Mode::Interrupt(seed, k) => { let mut x = (seed ^ (c as u64).wrapping_mul(0x9E3779B97F4A7C15)) | 1; x ^= x << 13; x ^= x >> 7; x ^= x << 17; if s.interrupts < 300 && x % 3 == 0 { s.interrupts += 1; return Err(io::Error::new(io::ErrorKind::Interrupted, "spurious")); } k }
            Mode::FailAt(j) => { if c >= j { s.failed = true; return Err(io::Error::new(io::ErrorKind::Other, format!("injected failure at write call {j}"))); } b.len() } };
        let n = k.min(b.len()); s.out.extend_from_slice(&b[..n]); Ok(n)
    }
    fn flush(&mut self) -> io::Result<()> { let s = self.st.lock().unwrap(); if s.failed { Err(io::Error::new(io::ErrorKind::Other, "injected failure (flush after the failed write)")) } else { Ok(()) } }
}

/// (name, run: writes the fixed content through the writer built over the sink, returns the result of every call in order; decode: canonical content of a complete file)
type Calls = (Vec<io::Result<()>>, /* the writer, kept alive: what it writes when DROPPED after an explicit finish is not a call that can report anything */ Box<dyn std::any::Any>);
type W = (&'static str, Box<dyn Fn(Sink) -> Calls>, Option<Box<dyn Fn(&[u8]) -> Result<Vec<String>, String>>>);

fn writers() -> Result<Vec<W>, String> {
    let mut v: Vec<W> = Vec::new();
    let (ah, arecs) = alignment_set(30)?; let (vh, vrecs) = variant_set(30)?;
    let (ah, arecs, vh, vrecs) = (Rc::new(ah), Rc::new(arecs), Rc::new(vh), Rc::new(vrecs));
    let payload: Rc<Vec<u8>> = Rc::new((0..200_000usize).map(|i| if i % 5 == 0 { ((i as u64).wrapping_mul(0x9E3779B97F4A7C15) >> 56) as u8 } else { b"ACGT\n"[i % 5] }).collect());
    { let p = payload.clone(); v.push(("bgzf::io::Writer", Box::new(move |s| { let mut w = bgzf::io::Writer::new(s); let mut r = Vec::new(); for ch in p.chunks(30_000) { r.push(w.write_all(ch)); r.push(w.flush()); } r.push(w.finish().map(|_| ())); (r, Box::new(()) as Box<dyn std::any::Any>) }), None)); }
    // (3 MB = ~46 blocks, so that after a failing sink write the caller keeps handing blocks to a writer thread that has already exited)
    { let p: Rc<Vec<u8>> = Rc::new(payload.iter().cycle().take(3_000_000).copied().collect()); v.push(("bgzf::io::MultithreadedWriter", Box::new(move |s| { let mut w = bgzf::io::MultithreadedWriter::new(s); let mut r = Vec::new(); for ch in p.chunks(30_000) { r.push(w.write_all(ch)); if r.last().unwrap().is_err() { break; } if r.len() % 8 == 0 { std::thread::yield_now(); } }
        // (a caller stops at the first error: what the multithreaded writer does when it is used AFTER it reported one — finish() panics with "invalid state" — is not C14's business)
        if r.iter().all(|x| x.is_ok()) { r.push(w.finish().map(|_| ())); } (r, Box::new(w) as Box<dyn std::any::Any>) }), None)); }
    { let (h, rs) = (ah.clone(), arecs.clone()); v.push(("bam::io::Writer", Box::new(move |s| { let mut w = noodles_bam::io::Writer::new(s); let mut r = vec![w.write_header(&h)]; for x in rs.iter() { r.push(w.write_alignment_record(&h, x)); } r.push(w.try_finish()); (r, Box::new(w) as Box<dyn std::any::Any>) }), None)); }
    { let (h, rs) = (ah.clone(), arecs.clone()); v.push(("sam::io::Writer", Box::new(move |s| { let mut w = sam::io::Writer::new(s); let mut r = vec![w.write_header(&h)]; for x in rs.iter() { r.push(w.write_alignment_record(&h, x)); } (r, Box::new(w) as Box<dyn std::any::Any>) }), None)); }
    { let (h, rs) = (ah.clone(), arecs.clone()); let h2 = ah.clone();
      v.push(("cram::io::Writer", Box::new(move |s| { let mut w = noodles_cram::io::writer::Builder::default().set_reference_sequence_repository(repo()).build_from_writer(s); let mut r = vec![w.write_header(&h)]; for x in rs.iter() { r.push(w.write_alignment_record(&h, x)); } r.push(w.try_finish(&h)); (r, Box::new(w) as Box<dyn std::any::Any>) }),
        Some(Box::new(move |b| { let mut rd = noodles_cram::io::reader::Builder::default().set_reference_sequence_repository(repo()).build_from_reader(b); let h = rd.read_header().map_err(|e| format!("header: {e}"))?; if h.reference_sequences().len() != h2.reference_sequences().len() { return Err("header differs".into()); }
            let mut o = Vec::new(); for r in rd.records(&h) { let r = r.map_err(|e| format!("record {}: {e}", o.len()))?; o.push(format!("{:?}", sam::alignment::RecordBuf::try_from_alignment_record(&h, &r).map_err(|e| e.to_string())?)); } Ok(o) })))); }
    { let (h, rs) = (vh.clone(), vrecs.clone()); v.push(("bcf::io::Writer", Box::new(move |s| { let mut w = noodles_bcf::io::Writer::new(s); let mut r = vec![w.write_header(&h)]; for x in rs.iter() { r.push(w.write_variant_record(&h, x)); } r.push(w.try_finish()); (r, Box::new(w) as Box<dyn std::any::Any>) }), None)); }
    { let (h, rs) = (vh.clone(), vrecs.clone()); v.push(("vcf::io::Writer", Box::new(move |s| { let mut w = vcf::io::Writer::new(s); let mut r = vec![w.write_header(&h)]; for x in rs.iter() { r.push(w.write_variant_record(&h, x)); } (r, Box::new(w) as Box<dyn std::any::Any>) }), None)); }
    { let (h, rs) = (vh.clone(), vrecs.clone()); v.push(("vcf::io::Writer over bgzf", Box::new(move |s| { let mut w = vcf::io::Writer::new(bgzf::io::Writer::new(s)); let mut r = vec![w.write_header(&h)]; for x in rs.iter() { r.push(w.write_variant_record(&h, x)); } r.push(w.get_mut().try_finish()); (r, Box::new(w) as Box<dyn std::any::Any>) }), None)); }
    // the generic noodles-util alignment writer, which adds its own buffering layer (F60)
    for (name, fmt, cm) in [("util alignment writer [SAM]", noodles_util::alignment::io::Format::Sam, None), ("util alignment writer [SAM.gz]", noodles_util::alignment::io::Format::Sam, Some(noodles_util::alignment::io::CompressionMethod::Bgzf)), ("util alignment writer [BAM]", noodles_util::alignment::io::Format::Bam, Some(noodles_util::alignment::io::CompressionMethod::Bgzf)), ("util alignment writer [raw BAM]", noodles_util::alignment::io::Format::Bam, None)] {
        let (h, rs) = (ah.clone(), arecs.clone());
        v.push((name, Box::new(move |s| { let mut w = match noodles_util::alignment::io::writer::Builder::default().set_format(fmt).set_compression_method(cm).build_from_writer(s) { Ok(w) => w, Err(e) => return (vec![Err(e)], Box::new(()) as Box<dyn std::any::Any>) };
            let mut r = vec![w.write_header(&h)]; for x in rs.iter() { r.push(w.write_record(&h, x)); } r.push(w.finish(&h)); (r, Box::new(w) as Box<dyn std::any::Any>) }), None));
    }
    // the generic noodles-util variant writer: it has NO finish at all (recorded finding F61)
    for (name, fmt, cm) in [("util variant writer [VCF]", noodles_util::variant::io::Format::Vcf, None), ("util variant writer [VCF.gz]", noodles_util::variant::io::Format::Vcf, Some(noodles_util::variant::io::CompressionMethod::Bgzf)), ("util variant writer [BCF]", noodles_util::variant::io::Format::Bcf, Some(noodles_util::variant::io::CompressionMethod::Bgzf)), ("util variant writer [raw BCF]", noodles_util::variant::io::Format::Bcf, None)] {
        let (h, rs) = (vh.clone(), vrecs.clone());
        v.push((name, Box::new(move |s| { let mut w = noodles_util::variant::io::writer::Builder::default().set_format(fmt).set_compression_method(cm).build_from_writer(s);
            let mut r = vec![w.write_header(&h)]; for x in rs.iter() { r.push(w.write_record(&h, x)); } (r, Box::new(w) as Box<dyn std::any::Any>) }), None));
    }
    v.push(("fasta::io::Writer", Box::new(|s| { let mut w = noodles_fasta::io::Writer::new(s); let mut r = Vec::new(); for i in 0..8 { let rec = noodles_fasta::Record::new(noodles_fasta::record::Definition::new(format!("sq{i}"), if i % 2 == 0 { Some(bstr::BString::from("d e")) } else { None }), noodles_fasta::record::Sequence::from(b"ACGT".repeat(40 + i))); r.push(w.write_record(&rec)); } (r, Box::new(w) as Box<dyn std::any::Any>) }), None));
    v.push(("fastq::io::Writer", Box::new(|s| { let mut w = noodles_fastq::io::Writer::new(s); let mut r = Vec::new(); for i in 0..12 { let rec = noodles_fastq::Record::new(noodles_fastq::record::Definition::new(format!("r{i}"), if i % 2 == 0 { "d" } else { "" }), "ACGTACGT", "II@+IIII"); r.push(w.write_record(&rec)); } (r, Box::new(w) as Box<dyn std::any::Any>) }), None));
    v.push(("gff::io::Writer", Box::new(|s| { let mut w = noodles_gff::io::Writer::new(s); let mut r = vec![w.write_directive(&noodles_gff::DirectiveBuf::new("gff-version", Some(noodles_gff::directive_buf::Value::GffVersion(Default::default()))))]; for i in 0..10 { let rec = noodles_gff::feature::RecordBuf::builder().set_reference_sequence_name(format!("sq{i}")).set_source("src").set_type("gene").set_start(noodles_core::Position::new(1 + i).unwrap()).set_end(noodles_core::Position::new(100 + i).unwrap()).build(); r.push(w.write_record(&rec)); } (r, Box::new(w) as Box<dyn std::any::Any>) }), None));
    v.push(("bed::io::Writer<3>", Box::new(|s| { let mut w = noodles_bed::io::Writer::<3, _>::new(s); let mut r = Vec::new(); for i in 0..10 { let rec = noodles_bed::feature::RecordBuf::<3>::builder().set_reference_sequence_name(format!("sq{i}")).set_feature_start(noodles_core::Position::new(1 + i).unwrap()).set_feature_end(noodles_core::Position::new(100 + i).unwrap()).build(); r.push(w.write_feature_record(&rec)); } (r, Box::new(w) as Box<dyn std::any::Any>) }), None));
    // index writers
    { use csi::binning_index::{index::reference_sequence::{bin::Chunk, index::{BinnedIndex, LinearIndex}}, Indexer};
      let vp = |c: u64, u: u16| bgzf::VirtualPosition::try_from((c, u)).unwrap(); let p = |n: usize| noodles_core::Position::new(n).unwrap();
      let feats: Vec<(usize, usize, usize)> = (0..60).map(|i| (i % 3, 1 + i * 9000, 40 + i * 9000)).collect();
      let mut bi = Indexer::<LinearIndex>::new(14, 5); let mut ci = Indexer::<BinnedIndex>::new(14, 5); let mut ti = Indexer::<LinearIndex>::new(14, 5).set_header(csi::binning_index::index::header::Builder::vcf().set_reference_sequence_names(["sq0", "sq1", "sq2"].iter().map(|s| bstr::BString::from(*s)).collect()).build());
      let mut c = 100u64; let mut fs = feats.clone(); fs.sort(); for (id, s, e) in fs { let ch = Chunk::new(vp(c, 0), vp(c + 40, 7)); c += 40; for r in [bi.add_record(Some((id, p(s), p(e), true)), ch), ci.add_record(Some((id, p(s), p(e), true)), ch), ti.add_record(Some((id, p(s), p(e), true)), ch)] { r.map_err(|e| e.to_string())?; } }
      let (bai, csi_ix, tbx) = (Rc::new(bi.build(3)), Rc::new(ci.build(3)), Rc::new(ti.build(3)));
      v.push(("bai::io::Writer", Box::new(move |s| { let mut w = noodles_bam::bai::io::Writer::new(s); (vec![w.write_index(&bai)], Box::new(w) as Box<dyn std::any::Any>) }), None));
      v.push(("csi::io::Writer", Box::new(move |s| { let mut w = csi::io::Writer::new(s); let a = w.write_index(&csi_ix); let b = w.into_inner().finish().map(|_| ()); (vec![a, b], Box::new(()) as Box<dyn std::any::Any>) }), None));
      // a CSI index whose header holds ~80 kB of reference sequence names: the aux section alone is larger than one BGZF block, so it must be written
      // with write_all semantics into the (partially accepting) BGZF writer; the file must DECODE to the same names
      { let names: Vec<bstr::BString> = (0..5000).map(|i| bstr::BString::from(format!("contig_{i:08}"))).collect();
        let mut big = Indexer::<BinnedIndex>::new(14, 5).set_header(csi::binning_index::index::header::Builder::vcf().set_reference_sequence_names(names.iter().cloned().collect()).build());
        big.add_record(Some((0, p(1), p(100), true)), Chunk::new(vp(100, 0), vp(140, 7))).map_err(|e| e.to_string())?;
        let big = Rc::new(big.build(5000)); let n_names = names.len();
        v.push(("csi::io::Writer (80 kB header)", Box::new(move |s| { let mut w = csi::io::Writer::new(s); let a = w.write_index(&big); let b = w.into_inner().finish().map(|_| ()); (vec![a, b], Box::new(()) as Box<dyn std::any::Any>) }),
            Some(Box::new(move |b: &[u8]| { use csi::binning_index::BinningIndex as _; let ix = csi::io::Reader::new(b).read_index().map_err(|e| format!("csi read_index: {e}"))?; let h = ix.header().ok_or("no header")?;
                if h.reference_sequence_names().len() != n_names { return Err(format!("{} reference sequence names instead of {n_names}", h.reference_sequence_names().len())); }
                Ok(vec![format!("{} names, last {:?}, {} reference sequences", h.reference_sequence_names().len(), h.reference_sequence_names().last(), ix.reference_sequences().len())]) })))); }
      v.push(("tabix::io::Writer", Box::new(move |s| { let mut w = noodles_tabix::io::Writer::new(s); let a = w.write_index(&tbx); let b = w.try_finish(); (vec![a, b], Box::new(w) as Box<dyn std::any::Any>) }), None)); }
    v.push(("gzi::io::Writer", Box::new(|s| { let mut w = bgzf::gzi::io::Writer::new(s); (vec![w.write_index(&bgzf::gzi::Index::from((1..200u64).map(|i| (i * 1000, i * 65280)).collect::<Vec<_>>()))], Box::new(w) as Box<dyn std::any::Any>) }), None));
    Ok(v)
}

/// the error the sink produced, or an error that has it in its source chain
fn is_injected(e: &io::Error) -> bool {
    if e.to_string().contains("injected failure") { return true; }
    let mut cur: Option<&(dyn std::error::Error + 'static)> = e.get_ref().map(|x| x as &(dyn std::error::Error + 'static));
    while let Some(x) = cur { if x.to_string().contains("injected failure") { return true; } cur = x.source(); }
    false
}

pub fn writer_sinks(tier: &str) -> Result<String, String> {
    let ws = writers()?;
    let mut fails: BTreeMap<String, String> = BTreeMap::new();
    let mut cases = 0u64;
    std::panic::set_hook(Box::new(|_| {}));
    for (name, run, decode) in &ws {
        let go = |mode: Mode| -> Result<(Vec<io::Result<()>>, Vec<u8>, usize, usize), String> { let st = Arc::new(Mutex::new(State::default())); let s = Sink { st: st.clone(), mode };
            let (r, keep) = std::panic::catch_unwind(std::panic::AssertUnwindSafe(|| run(s))).map_err(|_| "PANICS".to_string())?; let snap = { let g = st.lock().unwrap(); (g.out.clone(), g.writes) }; let _ = std::panic::catch_unwind(std::panic::AssertUnwindSafe(move || drop(keep))); let after_drop = st.lock().unwrap().out.len(); Ok((r, snap.0, snap.1, after_drop)) };
        let (r0, reference, n_writes, after_drop) = match go(Mode::All) { Ok(x) => x, Err(e) => { fails.insert(format!("{name} baseline"), format!("writer sinks [{name}]: {e} on a plain sink")); continue; } };
        if let Some(e) = r0.iter().find_map(|r| r.as_ref().err()) { fails.insert(format!("{name} baseline"), format!("writer sinks [{name}]: a call fails on a plain sink: {e}")); continue; }
        // everything but (at most) the 28-byte BGZF EOF marker must have reached the sink once the last explicit call has returned Ok:
        // what is written only when the writer is dropped cannot report a failure
        if after_drop > reference.len() + 28 { fails.insert(format!("{name} deferred"), format!("writer sinks [{name}]: every call, finish included, returned Ok while {} of {} bytes were still unwritten — they reach the sink only when the writer is dropped, where a failure is ignored", after_drop - reference.len(), after_drop)); continue; }
        let canon = |b: &[u8]| -> Result<Vec<String>, String> { match decode { Some(d) => d(b), None => Ok(vec![format!("{} bytes", b.len()), b.iter().fold(0xcbf29ce484222325u64, |h, x| (h ^ *x as u64).wrapping_mul(0x100000001b3)).to_string()]) } };
        let want = match canon(&reference) { Ok(w) => w, Err(e) => { fails.insert(format!("{name} decode"), format!("writer sinks [{name}]: every call returns Ok on a plain sink but the {} bytes it holds do not decode to what was written: {e}", reference.len())); continue; } };
        // (a) short writes and spurious Interrupted
        for mode in [Mode::Short(1), Mode::Short(7), Mode::Short(64), Mode::Short(4093), Mode::Interrupt(1, usize::MAX), Mode::Interrupt(2, 5), Mode::Interrupt(3, 64)] {
            cases += 1;
            let what = match mode { Mode::Short(_) => "a sink that accepts only part of each buffer", _ => "a sink that reports Interrupted now and then" };
            match go(mode) { Err(e) => { fails.entry(format!("{name} {what} panic")).or_insert_with(|| format!("writer sinks [{name}]: {e} with {what} ({mode:?})")); }
                Ok((r, out, _, _)) => { if let Some(e) = r.iter().find_map(|r| r.as_ref().err()) { fails.entry(format!("{name} {what} err")).or_insert_with(|| format!("writer sinks [{name}]: with {what} ({mode:?}) a call fails: {e} ({:?})", e.kind())); }
                    else { match canon(&out) { Ok(got) if got == want => {} Ok(_) => { fails.entry(format!("{name} {what} bytes")).or_insert_with(|| format!("writer sinks [{name}]: with {what} ({mode:?}) every call returns Ok but the sink holds {} bytes that differ from the {} bytes a plain sink gets", out.len(), reference.len())); } Err(e) => { fails.entry(format!("{name} {what} bytes")).or_insert_with(|| format!("writer sinks [{name}]: with {what} ({mode:?}) every call returns Ok but the sink holds a file that does not decode ({e}); {} bytes instead of {}", out.len(), reference.len())); } } } } }
        }
        // (b) the j-th write call of the sink fails, and every later one
        let js: Vec<usize> = if n_writes <= 400 || tier == "thorough" { (0..n_writes).collect() } else { (0..n_writes).step_by(n_writes / 300 + 1).chain(n_writes.saturating_sub(20)..n_writes).collect() };
        for j in js {
            cases += 1;
            match go(Mode::FailAt(j)) { Err(e) => { fails.entry(format!("{name} fail panic")).or_insert_with(|| format!("writer sinks [{name}]: {e} when write call {j} of the sink fails")); }
                Ok((r, _, _, _)) => { match r.iter().find_map(|r| r.as_ref().err()) {
                    None => { fails.entry(format!("{name} hidden")).or_insert_with(|| format!("writer sinks [{name}]: write call {j} of {n_writes} of the sink fails (and every later one) but ALL {} calls on the writer, finish included, return Ok", r.len())); }
                    Some(e) => if !is_injected(e) { fails.entry(format!("{name} other error")).or_insert_with(|| format!("writer sinks [{name}]: write call {j} of the sink fails with Other \"injected failure ..\" but the writer reports {:?} \"{e}\"", e.kind())); } } } }
        }
    }
    let _ = std::panic::take_hook();
    if fails.is_empty() { Ok(format!("\"cases\":{cases}")) } else { Err(format!("FAILURES\n{}", fails.values().cloned().collect::<Vec<_>>().join("\n"))) }
}
