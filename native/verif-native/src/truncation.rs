//! C13 BOUNDED-NATIVE stand-in (never counted as proved): files written by the real writers, cut at byte offsets, read by the
//! real readers.  Required of every cut: no panic; the records (bytes) obtained are a PREFIX of what the uncut file gives,
//! unchanged and in order; then end of input or an error; and where the property demands it — the byte stream of a BAM / BCF
//! record reader ends inside a record, a CRAM file ends inside a container — the end must be an ERROR, not a clean end.
//! The cut points are independent of the library: record boundaries are recorded while writing (raw BAM / BCF streams),
//! CRAM container boundaries are computed by an ITF8 / LTF8 walk written here.
use std::{cell::RefCell, collections::BTreeMap, io::{self, Read, Write}, rc::Rc};
use noodles_bgzf as bgzf;
use noodles_sam as sam;
use noodles_vcf as vcf;
use noodles_util::{alignment, variant};

#[derive(Clone)]
struct Sink(Rc<RefCell<Vec<u8>>>);
impl Write for Sink { fn write(&mut self, b: &[u8]) -> io::Result<usize> { self.0.borrow_mut().extend_from_slice(b); Ok(b.len()) } fn flush(&mut self) -> io::Result<()> { Ok(()) } }

struct Log { fails: BTreeMap<String, (String, u64)>, cases: u64 }
impl Log {
    fn fail(&mut self, key: String, line: impl FnOnce() -> String) { let e = self.fails.entry(key).or_insert_with(|| (line(), 0)); e.1 += 1; }
}

/// offsets to cut at: every offset for small files, otherwise every offset near an interesting boundary + a fixed stride
fn cuts(len: usize, marks: &[usize], tier: &str) -> Vec<usize> {
    let all = if tier == "thorough" { 40_000 } else { 6_000 };
    if len <= all { return (0..len).collect(); }
    let stride = if tier == "thorough" { 97 } else { 997 };
    let mut v: Vec<usize> = (0..len).step_by(stride).collect();
    for &m in marks { for d in 0..=24usize { if m + d < len { v.push(m + d); } if m >= d && m - d < len { v.push(m - d); } } }
    v.extend(0..64.min(len)); v.extend(len.saturating_sub(64)..len);
    v.sort(); v.dedup(); v
}

// ------------------------------------------------------------------------------------------------------------ data sets
pub(crate) fn refseq() -> Vec<u8> { (0..3000).map(|i| b"ACGT"[((i as u64).wrapping_mul(2654435761) >> 7) as usize % 4]).collect() }
pub(crate) fn repo() -> noodles_fasta::Repository {
    let r = refseq();
    noodles_fasta::Repository::new(vec![noodles_fasta::Record::new(noodles_fasta::record::Definition::new("sq0", None), noodles_fasta::record::Sequence::from(r.clone())), noodles_fasta::Record::new(noodles_fasta::record::Definition::new("sq1", None), noodles_fasta::record::Sequence::from(r))])
}
pub(crate) fn alignment_set(n: usize) -> Result<(sam::Header, Vec<sam::alignment::RecordBuf>), String> {
    let r = refseq();
    let header: sam::Header = "@HD\tVN:1.6\tSO:coordinate\n@SQ\tSN:sq0\tLN:3000\n@SQ\tSN:sq1\tLN:3000\n@RG\tID:rg0\n@CO\tcut me\n".parse().map_err(|e| format!("header: {e}"))?;
    let mut body = String::new();
    for i in 0..n {
        let (rname, off) = if i < n * 2 / 3 { ("sq0", i * 3) } else { ("sq1", (i - n * 2 / 3) * 5) };
        let pos = 1 + off % 2900; let len = 20 + i % 30;
        let seq = String::from_utf8(r[pos - 1..pos - 1 + len].to_vec()).unwrap();
        let qual: String = (0..len).map(|j| (b'!' + 20 + ((i + j) % 20) as u8) as char).collect();
        body.push_str(&format!("r{i:04}\t{}\t{rname}\t{pos}\t{}\t{len}M\t*\t0\t0\t{seq}\t{qual}\tNM:i:0\tXI:i:{}\n", if i % 2 == 0 { 0 } else { 16 }, 10 + i % 40, i * 37));
    }
    for i in 0..3 { body.push_str(&format!("u{i}\t4\t*\t0\t0\t*\t*\t0\t0\tACGTACGTAC\tIIIIIIIIII\n")); }
    let recs = sam::io::Reader::new(body.as_bytes()).record_bufs(&header).collect::<Result<Vec<_>, _>>().map_err(|e| format!("sam: {e}"))?;
    Ok((header, recs))
}
pub(crate) fn variant_set(n: usize) -> Result<(vcf::Header, Vec<vcf::variant::RecordBuf>), String> {
    let mut t = String::from("##fileformat=VCFv4.3\n##INFO=<ID=DP,Number=1,Type=Integer,Description=\"d\">\n##INFO=<ID=XS,Number=1,Type=String,Description=\"s\">\n##FILTER=<ID=PASS,Description=\"All filters passed\">\n##FORMAT=<ID=GT,Number=1,Type=String,Description=\"g\">\n##FORMAT=<ID=XA,Number=.,Type=Integer,Description=\"a\">\n##contig=<ID=sq0,length=3000>\n##contig=<ID=sq1,length=3000>\n#CHROM\tPOS\tID\tREF\tALT\tQUAL\tFILTER\tINFO\tFORMAT\ts0\ts1\n");
    for i in 0..n { t.push_str(&format!("{}\t{}\trs{i}\tA\tC\t{}\tPASS\tDP={};XS=v{i}\tGT:XA\t0|1:{},{}\t1/1:{}\n", if i < n / 2 { "sq0" } else { "sq1" }, 1 + (i * 7) % 2900, 10 + i % 50, i * 13, i, i + 1, i * 1000)); }
    let mut rd = vcf::io::Reader::new(t.as_bytes()); let h = rd.read_header().map_err(|e| format!("vcf header: {e}"))?;
    let recs = rd.record_bufs(&h).collect::<Result<Vec<_>, _>>().map_err(|e| format!("vcf: {e}"))?;
    Ok((h, recs))
}

// ------------------------------------------------------------------------------------------------------------ writing
/// returns (file, offsets in the file right after the header and after each record) — the marks are exact only for raw streams
pub(crate) fn write_alignment(fmt: alignment::io::Format, cm: Option<alignment::io::CompressionMethod>, h: &sam::Header, recs: &[sam::alignment::RecordBuf]) -> Result<(Vec<u8>, Vec<usize>), String> {
    let buf = Rc::new(RefCell::new(Vec::new())); let mut marks = Vec::new();
    { let mut w = alignment::io::writer::Builder::default().set_format(fmt).set_compression_method(cm).set_reference_sequence_repository(repo()).build_from_writer(Sink(buf.clone())).map_err(|e| format!("build writer: {e}"))?;
      w.write_header(h).map_err(|e| format!("write_header: {e}"))?; marks.push(buf.borrow().len());
      for r in recs { w.write_record(h, r).map_err(|e| format!("write_record: {e}"))?; marks.push(buf.borrow().len()); }
      w.finish(h).map_err(|e| format!("finish: {e}"))?; }
    let v = buf.borrow().clone(); Ok((v, marks))
}
pub(crate) fn write_variant(fmt: variant::io::Format, cm: Option<variant::io::CompressionMethod>, h: &vcf::Header, recs: &[vcf::variant::RecordBuf]) -> Result<(Vec<u8>, Vec<usize>), String> {
    let buf = Rc::new(RefCell::new(Vec::new())); let mut marks = Vec::new();
    { let mut w = variant::io::writer::Builder::default().set_format(fmt).set_compression_method(cm).build_from_writer(Sink(buf.clone()));
      w.write_header(h).map_err(|e| format!("write_header: {e}"))?; marks.push(buf.borrow().len());
      for r in recs { w.write_record(h, r).map_err(|e| format!("write_record: {e}"))?; marks.push(buf.borrow().len()); } }
    let v = buf.borrow().clone(); Ok((v, marks))
}

// ------------------------------------------------------------------------------------------------------------ reading
/// (records read before the end, how it ended: None = clean end of input, Some(e) = error)
fn read_alignment(fmt: alignment::io::Format, cm: Option<alignment::io::CompressionMethod>, data: &[u8], limit: usize) -> (Vec<sam::alignment::RecordBuf>, Option<String>) {
    let mut out = Vec::new();
    let mut rd = match alignment::io::reader::Builder::default().set_format(fmt).set_compression_method(cm).set_reference_sequence_repository(repo()).build_from_reader(io::Cursor::new(data.to_vec())) { Ok(r) => r, Err(e) => return (out, Some(format!("build: {e}"))) };
    let h = match rd.read_header() { Ok(h) => h, Err(e) => return (out, Some(format!("header: {e}"))) };
    for r in rd.records(&h) {
        match r.and_then(|r| sam::alignment::RecordBuf::try_from_alignment_record(&h, r.as_ref())) { Ok(r) => out.push(r), Err(e) => return (out, Some(e.to_string())) }
        if out.len() > limit { return (out, Some("(more records than were written)".into())); }
    }
    (out, None)
}
fn read_variant(fmt: variant::io::Format, cm: Option<variant::io::CompressionMethod>, data: &[u8], limit: usize) -> (Vec<vcf::variant::RecordBuf>, Option<String>) {
    let mut out = Vec::new();
    let mut rd = match variant::io::reader::Builder::default().set_format(fmt).set_compression_method(cm).build_from_reader(io::Cursor::new(data.to_vec())) { Ok(r) => r, Err(e) => return (out, Some(format!("build: {e}"))) };
    let h = match rd.read_header() { Ok(h) => h, Err(e) => return (out, Some(format!("header: {e}"))) };
    for r in rd.records(&h) {
        match r.and_then(|r| vcf::variant::RecordBuf::try_from_variant_record(&h, r.as_ref())) { Ok(r) => out.push(r), Err(e) => return (out, Some(e.to_string())) }
        if out.len() > limit { return (out, Some("(more records than were written)".into())); }
    }
    (out, None)
}

// ------------------------------------------------------------------------------------------------------------ CRAM container walk (independent)
fn itf8(b: &[u8], p: &mut usize) -> Option<()> { let f = *b.get(*p)?; let n = if f & 0x80 == 0 { 1 } else if f & 0x40 == 0 { 2 } else if f & 0x20 == 0 { 3 } else if f & 0x10 == 0 { 4 } else { 5 }; if *p + n > b.len() { return None; } *p += n; Some(()) }
fn itf8_val(b: &[u8], p: &mut usize) -> Option<i64> {
    let f = *b.get(*p)? as i64; let g = |i: usize| b.get(*p + i).map(|x| *x as i64);
    let (v, n) = if f & 0x80 == 0 { (f, 1) } else if f & 0x40 == 0 { (((f & 0x3f) << 8) | g(1)?, 2) } else if f & 0x20 == 0 { (((f & 0x1f) << 16) | (g(1)? << 8) | g(2)?, 3) } else if f & 0x10 == 0 { (((f & 0x0f) << 24) | (g(1)? << 16) | (g(2)? << 8) | g(3)?, 4) } else { (((f & 0x0f) << 28) | (g(1)? << 20) | (g(2)? << 12) | (g(3)? << 4) | (g(4)? & 0x0f), 5) };
    *p += n; Some(v)
}
fn ltf8(b: &[u8], p: &mut usize) -> Option<()> { let f = *b.get(*p)?; let n = 1 + f.leading_ones() as usize; if *p + n > b.len() { return None; } *p += n; Some(()) }
/// offsets at which a container ends (the first is the end of the 26-byte file definition)
fn cram_container_ends(b: &[u8]) -> Option<Vec<usize>> {
    let mut ends = vec![26usize]; let mut p = 26;
    while p < b.len() {
        let len = i32::from_le_bytes(b.get(p..p + 4)?.try_into().ok()?); p += 4;
        itf8(b, &mut p)?; itf8(b, &mut p)?; itf8(b, &mut p)?; itf8(b, &mut p)?; ltf8(b, &mut p)?; ltf8(b, &mut p)?; itf8(b, &mut p)?;
        let n = itf8_val(b, &mut p)?; for _ in 0..n { itf8(b, &mut p)?; }
        p += 4; p += usize::try_from(len).ok()?; if p > b.len() { return None; }
        ends.push(p);
    }
    Some(ends)
}

pub(crate) fn itf8_pub(b: &[u8], p: &mut usize) -> Option<()> { itf8(b, p) }
pub(crate) fn itf8_val_pub(b: &[u8], p: &mut usize) -> Option<i64> { itf8_val(b, p) }
/// raw CRAM stream: (offset, header length, body length, landmarks) of every container after the file definition (independent walk)
pub(crate) fn cram_containers(b: &[u8]) -> Option<Vec<(usize, usize, usize, Vec<usize>)>> {
    let mut out = Vec::new(); let mut p = 26;
    while p < b.len() {
        let start = p;
        let len = usize::try_from(i32::from_le_bytes(b.get(p..p + 4)?.try_into().ok()?)).ok()?; p += 4;
        itf8(b, &mut p)?; itf8(b, &mut p)?; itf8(b, &mut p)?; itf8(b, &mut p)?; ltf8(b, &mut p)?; ltf8(b, &mut p)?; itf8(b, &mut p)?;
        let n = itf8_val(b, &mut p)?; let mut lm = Vec::new(); for _ in 0..n { lm.push(usize::try_from(itf8_val(b, &mut p)?).ok()?); }
        p += 4; let hl = p - start; p += len; if p > b.len() { return None; }
        out.push((start, hl, len, lm));
    }
    Some(out)
}
/// raw CRAM stream: the compression method byte of every block of every container (independent walk of the block headers)
pub(crate) fn cram_block_methods(b: &[u8]) -> Option<Vec<u8>> {
    let mut out = Vec::new();
    for (start, hl, len, _) in cram_containers(b)? {
        let (mut p, end) = (start + hl, start + hl + len);
        while p < end { out.push(*b.get(p)?); p += 2; itf8(b, &mut p)?; let size = usize::try_from(itf8_val(b, &mut p)?).ok()?; itf8(b, &mut p)?; p += size + 4; }
        if p != end { return None; }
    }
    Some(out)
}
/// raw BAM stream: offsets right after the header and after each record (walk of the length fields, independent of the library)
fn bam_marks(b: &[u8]) -> Option<Vec<usize>> {
    let u = |p: usize| -> Option<usize> { Some(u32::from_le_bytes(b.get(p..p + 4)?.try_into().ok()?) as usize) };
    if b.get(..4)? != b"BAM\x01" { return None; }
    let mut p = 8 + u(4)?; let n = u(p)?; p += 4;
    for _ in 0..n { p += 4 + u(p)?; p += 4; }
    let mut m = vec![p];
    while p < b.len() { p += 4 + u(p)?; if p > b.len() { return None; } m.push(p); }
    Some(m)
}
/// raw BCF stream: offsets right after the header and after each record
fn bcf_marks(b: &[u8]) -> Option<Vec<usize>> {
    let u = |p: usize| -> Option<usize> { Some(u32::from_le_bytes(b.get(p..p + 4)?.try_into().ok()?) as usize) };
    if b.get(..3)? != b"BCF" { return None; }
    let mut p = 9 + u(5)?;
    let mut m = vec![p];
    while p < b.len() { p += 8 + u(p)? + u(p + 4)?; if p > b.len() { return None; } m.push(p); }
    Some(m)
}

// ------------------------------------------------------------------------------------------------------------ the harness
pub fn truncation(tier: &str) -> Result<String, String> {
    use alignment::io::{CompressionMethod as ACm, Format as AF};
    use variant::io::{CompressionMethod as VCm, Format as VF};
    let mut log = Log { fails: BTreeMap::new(), cases: 0 };
    std::panic::set_hook(Box::new(|_| {}));
    let n = if tier == "thorough" { 600 } else { 120 };
    let (ah, arecs) = alignment_set(n)?;
    let (vh, vrecs) = variant_set(n)?;

    // ---- BGZF: the bytes obtained are a prefix of the bytes written; a stream cut inside a block is an error
    {
        let data: Vec<u8> = (0..if tier == "thorough" { 400_000usize } else { 150_000 }).map(|i| ((i as u64).wrapping_mul(0x9E3779B97F4A7C15) >> 57) as u8 + b'A').collect();
        let mut w = bgzf::io::Writer::new(Vec::new()); let mut marks = vec![0usize];
        for ch in data.chunks(30_011) { w.write_all(ch).map_err(|e| e.to_string())?; w.flush().map_err(|e| e.to_string())?; marks.push(w.get_ref().len()); }
        let file = w.finish().map_err(|e| e.to_string())?;
        // block boundaries, from the BSIZE fields (independent of the reader)
        let mut bounds = vec![0usize]; let mut p = 0; while p + 18 <= file.len() { p += u16::from_le_bytes([file[p + 16], file[p + 17]]) as usize + 1; bounds.push(p); }
        for c in cuts(file.len(), &bounds, tier) {
            log.cases += 1;
            let r = std::panic::catch_unwind(|| { let mut rd = bgzf::io::Reader::new(&file[..c]); let mut out = Vec::new(); let mut buf = [0u8; 8192];
                loop { match rd.read(&mut buf) { Ok(0) => return (out, None), Ok(k) => out.extend_from_slice(&buf[..k]), Err(e) => return (out, Some(e.to_string())) } if out.len() > data.len() + 10 { return (out, Some("(more bytes than were written)".into())); } } });
            match r { Err(_) => log.fail("bgzf panic".into(), || format!("BGZF cut at {c} of {}: the reader PANICS", file.len())),
                Ok((out, end)) => {
                    if !data.starts_with(&out) { log.fail("bgzf prefix".into(), || format!("BGZF cut at {c} of {}: the {} bytes read are not a prefix of the bytes written", file.len(), out.len())); }
                    // (for BGZF itself the property allows either ending; noodles takes a stream that ends inside a block HEADER for a clean end
                    // and one that ends inside a block BODY for an error — proved in unit bgzf.reader — so nothing more is demanded here)
                    let _ = end;
                } }
        }
    }

    // ---- alignment formats
    let afmts: Vec<(&str, AF, Option<ACm>, bool)> = vec![("raw BAM stream", AF::Bam, None, true), ("BAM", AF::Bam, Some(ACm::Bgzf), false), ("SAM.gz", AF::Sam, Some(ACm::Bgzf), false), ("SAM", AF::Sam, None, false), ("CRAM", AF::Cram, None, false)];
    for (name, fmt, cm, raw) in &afmts {
        let (file, _) = match write_alignment(*fmt, *cm, &ah, &arecs) { Ok(x) => x, Err(e) => { log.fail(format!("{name} write"), || format!("{name}: writing the file fails: {e}")); continue; } };
        let marks = if *raw { match bam_marks(&file) { Some(m) if m.len() == arecs.len() + 1 => m, _ => { log.fail("BAM walk".into(), || "raw BAM stream: the independent record walk does not find the records written".into()); continue; } } } else { Vec::new() };
        let (base, end) = read_alignment(*fmt, *cm, &file, arecs.len() + 5);
        if end.is_some() || base.len() != arecs.len() { log.fail(format!("{name} baseline"), || format!("{name}: the uncut file reads as {} records then {:?}; {} were written", base.len(), end, arecs.len())); continue; }
        let ends = if *name == "CRAM" { match cram_container_ends(&file) { Some(e) => e, None => { log.fail("CRAM walk".into(), || "CRAM: the independent container walk does not reach the end of the uncut file".into()); continue; } } } else { Vec::new() };
        let interesting: Vec<usize> = if *raw { marks.clone() } else if *name == "CRAM" { ends.clone() } else { bgzf_bounds(&file) };
        for c in cuts(file.len(), &interesting, tier) {
            log.cases += 1;
            let r = std::panic::catch_unwind(std::panic::AssertUnwindSafe(|| read_alignment(*fmt, *cm, &file[..c], arecs.len() + 5)));
            match r { Err(_) => log.fail(format!("{name} panic"), || format!("{name} cut at {c} of {}: the reader PANICS", file.len())),
                Ok((got, end)) => {
                    let text = matches!(fmt, AF::Sam);
                    // a text format cannot tell a cut line from a last line without terminator: the LAST record obtained may be such a line
                    let cmp = if text && got.len() > 0 && end.is_none() && got.last() != base.get(got.len() - 1) { got.len() - 1 } else { got.len() };
                    if got.len() > base.len() || got[..cmp] != base[..cmp] { let i = (0..cmp.min(base.len())).find(|i| got[*i] != base[*i]).unwrap_or(base.len()); log.fail(format!("{name} prefix"), || format!("{name} cut at {c} of {}: record {i} of the {} obtained differs from what the uncut file gives (ended with {:?})", file.len(), got.len(), end)); }
                    if *raw && c >= marks[0] && !marks.contains(&c) && end.is_none() { log.fail(format!("{name} clean end inside a record"), || format!("{name} cut at {c} of {} (inside record {}): the reader reports a clean end of input after {} records", file.len(), marks.iter().filter(|m| **m <= c).count() - 1, got.len())); }
                    if *name == "CRAM" && c >= 26 && !ends.contains(&c) && end.is_none() {
                        // (F52: the signature of the recorded finding — the cut lies in the 15-byte BODY of the EOF container, whose 23-byte header is
                        // complete — has its own key; a clean end inside any other container, or inside the EOF container's header, is reported separately)
                        let eof_start = ends[ends.len() - 2];
                        if c >= eof_start + 23 && got.len() == base.len() { log.fail("CRAM clean end inside the EOF container body".into(), || format!("CRAM cut inside the body of the EOF container (its header is complete): the reader reports a clean end of input after all {} records; first: cut at {c} of {}", got.len(), file.len())); }
                        else { log.fail("CRAM clean end inside a container".into(), || format!("CRAM cut at {c} of {} (inside container {}): the reader reports a clean end of input after {} records", file.len(), ends.iter().filter(|m| **m <= c).count() - 1, got.len())); }
                    }
                } }
        }
    }

    // ---- variant formats
    let vfmts: Vec<(&str, VF, Option<VCm>, bool)> = vec![("raw BCF stream", VF::Bcf, None, true), ("BCF", VF::Bcf, Some(VCm::Bgzf), false), ("VCF.gz", VF::Vcf, Some(VCm::Bgzf), false), ("VCF", VF::Vcf, None, false)];
    for (name, fmt, cm, raw) in &vfmts {
        let (file, _) = match write_variant(*fmt, *cm, &vh, &vrecs) { Ok(x) => x, Err(e) => { log.fail(format!("{name} write"), || format!("{name}: writing the file fails: {e}")); continue; } };
        let marks = if *raw { match bcf_marks(&file) { Some(m) if m.len() == vrecs.len() + 1 => m, _ => { log.fail("BCF walk".into(), || "raw BCF stream: the independent record walk does not find the records written".into()); continue; } } } else { Vec::new() };
        let (base, end) = read_variant(*fmt, *cm, &file, vrecs.len() + 5);
        if end.is_some() || base.len() != vrecs.len() { log.fail(format!("{name} baseline"), || format!("{name}: the uncut file reads as {} records then {:?}; {} were written", base.len(), end, vrecs.len())); continue; }
        let interesting: Vec<usize> = if *raw { marks.clone() } else { bgzf_bounds(&file) };
        for c in cuts(file.len(), &interesting, tier) {
            log.cases += 1;
            let r = std::panic::catch_unwind(std::panic::AssertUnwindSafe(|| read_variant(*fmt, *cm, &file[..c], vrecs.len() + 5)));
            match r { Err(_) => log.fail(format!("{name} panic"), || format!("{name} cut at {c} of {}: the reader PANICS", file.len())),
                Ok((got, end)) => {
                    let text = matches!(fmt, VF::Vcf);
                    let cmp = if text && got.len() > 0 && end.is_none() && got.last() != base.get(got.len() - 1) { got.len() - 1 } else { got.len() };
                    if got.len() > base.len() || got[..cmp] != base[..cmp] { let i = (0..cmp.min(base.len())).find(|i| got[*i] != base[*i]).unwrap_or(base.len()); log.fail(format!("{name} prefix"), || format!("{name} cut at {c} of {}: record {i} of the {} obtained differs from what the uncut file gives (ended with {:?})", file.len(), got.len(), end)); }
                    if *raw && c >= marks[0] && !marks.contains(&c) && end.is_none() { log.fail(format!("{name} clean end inside a record"), || format!("{name} cut at {c} of {} (inside record {}): the reader reports a clean end of input after {} records", file.len(), marks.iter().filter(|m| **m <= c).count() - 1, got.len())); }
                } }
        }
    }
    // ---- the eager routes of the raw record streams (bam / bcf Reader::record_bufs): same demands (F62)
    { let (file, _) = write_variant(VF::Bcf, None, &vh, &vrecs)?; if let Some(marks) = bcf_marks(&file) {
        for c in cuts(file.len(), &marks, tier) { log.cases += 1;
            let r = std::panic::catch_unwind(std::panic::AssertUnwindSafe(|| -> (usize, Option<String>) { let mut rd = noodles_bcf::io::Reader::from(&file[..c]); let h = match rd.read_header() { Ok(h) => h, Err(e) => return (0, Some(format!("header: {e}"))) }; let mut n = 0; for r in rd.record_bufs(&h) { match r { Ok(_) => n += 1, Err(e) => return (n, Some(e.to_string())) } if n > vrecs.len() + 5 { return (n, Some("(more records than were written)".into())); } } (n, None) }));
            match r { Err(_) => log.fail("raw BCF record_bufs panic".into(), || format!("raw BCF stream (record_bufs) cut at {c} of {}: the reader PANICS", file.len())),
                Ok((n, end)) => { let complete = marks.iter().filter(|m| **m <= c).count().saturating_sub(1);
                    if n > complete { log.fail("raw BCF record_bufs fabricated".into(), || format!("raw BCF stream (record_bufs) cut at {c} of {}: {n} records are returned but only {complete} are complete", file.len())); }
                    if c >= marks[0] && !marks.contains(&c) && end.is_none() { log.fail("raw BCF record_bufs clean end inside a record".into(), || format!("raw BCF stream (record_bufs) cut at {c} of {} (inside record {complete}): the reader reports a clean end of input after {n} records", file.len())); } } } } } }
    { let (file, _) = write_alignment(AF::Bam, None, &ah, &arecs)?; if let Some(marks) = bam_marks(&file) {
        for c in cuts(file.len(), &marks, tier) { log.cases += 1;
            let r = std::panic::catch_unwind(std::panic::AssertUnwindSafe(|| -> (usize, Option<String>) { let mut rd = noodles_bam::io::Reader::from(&file[..c]); let h = match rd.read_header() { Ok(h) => h, Err(e) => return (0, Some(format!("header: {e}"))) }; let mut n = 0; for r in rd.record_bufs(&h) { match r { Ok(_) => n += 1, Err(e) => return (n, Some(e.to_string())) } if n > arecs.len() + 5 { return (n, Some("(more records than were written)".into())); } } (n, None) }));
            match r { Err(_) => log.fail("raw BAM record_bufs panic".into(), || format!("raw BAM stream (record_bufs) cut at {c} of {}: the reader PANICS", file.len())),
                Ok((n, end)) => { let complete = marks.iter().filter(|m| **m <= c).count().saturating_sub(1);
                    if n > complete { log.fail("raw BAM record_bufs fabricated".into(), || format!("raw BAM stream (record_bufs) cut at {c} of {}: {n} records are returned but only {complete} are complete", file.len())); }
                    if c >= marks[0] && !marks.contains(&c) && end.is_none() { log.fail("raw BAM record_bufs clean end inside a record".into(), || format!("raw BAM stream (record_bufs) cut at {c} of {} (inside record {complete}): the reader reports a clean end of input after {n} records", file.len())); } } } } } }
    // ---- binary index files (gzi, BAI, CSI, tabix): a cut file is an error, or — when only the optional trailing count of unplaced
    // unmapped records is missing — the SAME index without that count; never an index with fewer bins, intervals or references
    for (name, file, _, run) in crate::chunked::targets()?.iter().filter(|t| ["gzi index", "BAI index", "CSI index", "tabix index"].contains(&t.0)) {
        let strip = |s: &str| -> String { const K: &str = "unplaced_unmapped_record_count: "; let mut o = String::new(); let mut rest = s; while let Some(i) = rest.find(K) { o.push_str(&rest[..i + K.len()]); o.push('_'); let after = &rest[i + K.len()..]; let j = after.find(|c| c == ',' || c == '}').unwrap_or(after.len()); rest = &after[j..]; } o.push_str(rest); o };
        let full = match run(&mut &file[..], None) { Ok(v) if v.len() == 1 && !v[0].starts_with("ERROR") => strip(&v[0]), other => { log.fail(format!("{name} baseline"), || format!("{name}: the uncut file reads as {other:?}")); continue; } };
        for c in 0..file.len() {
            log.cases += 1;
            match std::panic::catch_unwind(std::panic::AssertUnwindSafe(|| run(&mut &file[..c], None))) {
                Err(_) => log.fail(format!("{name} panic"), || format!("{name} cut at {c} of {}: the reader PANICS", file.len())),
                Ok(Ok(v)) => { if v.len() == 1 && !v[0].starts_with("ERROR") && strip(&v[0]) != full { log.fail(format!("{name} shortened"), || format!("{name} cut at {c} of {}: read_index returns Ok with a DIFFERENT index than the uncut file (shortened or altered), not an error", file.len())); } }
                Ok(Err(e)) => log.fail(format!("{name} harness"), || format!("{name}: {e}")),
            }
        }
    }
    let _ = std::panic::take_hook();
    if log.fails.is_empty() { Ok(format!("\"cases\":{}", log.cases)) }
    else { Err(format!("FAILURES\n{}", log.fails.values().map(|(l, n)| format!("{l} [{n} cut(s)]")).collect::<Vec<_>>().join("\n"))) }
}

/// BGZF block boundaries from the BSIZE fields (0 for a file that is not BGZF)
fn bgzf_bounds(file: &[u8]) -> Vec<usize> {
    let mut bounds = vec![0usize]; let mut p = 0;
    while p + 18 <= file.len() && file[p] == 0x1f && file[p + 1] == 0x8b { p += u16::from_le_bytes([file[p + 16], file[p + 17]]) as usize + 1; bounds.push(p); }
    bounds
}
