//! Concrete witnesses of findings, executed on the real code.  Ok(..) = the defect is NOT observed.
use std::io::{Read, Write};
use noodles_bgzf as bgzf;

pub fn run(id: &str) -> Result<String, String> {
    match id {
        "F15" => f15(),
        "F16" => f16(),
        "F1" => f1(),
        _ => Err(format!("unknown witness {id}")),
    }
}

/// F15: BGZF stream without the EOF marker, read with a >= 64 KiB buffer: after the last block
/// `read` must return Ok(0) (or an error), not a stale non-zero length.
fn f15() -> Result<String, String> {
    let mut w = bgzf::io::Writer::new(Vec::new());
    w.write_all(b"noodles").unwrap();
    let data = w.finish().unwrap();
    let cut = &data[..data.len() - 28]; // drop the EOF marker: still a valid BGZF file
    let mut r = bgzf::io::Reader::new(cut);
    let mut buf = vec![0u8; 65536];
    let n1 = r.read(&mut buf).map_err(|e| e.to_string())?;
    if n1 != 7 { return Err(format!("first read returned {n1}")); }
    let n2 = match r.read(&mut buf) { Ok(n) => n, Err(_) => 0 };
    if n2 != 0 { return Err(format!("read at end of a marker-less BGZF stream returned Ok({n2}) with a 65536-byte buffer; expected Ok(0)")); }
    Ok("\"cases\":1".into())
}

/// F16: seek to the end of a marker-less BGZF stream, then read: must yield nothing (not the previous block again).
fn f16() -> Result<String, String> {
    let mut w = bgzf::io::Writer::new(Vec::new());
    w.write_all(b"noodles").unwrap();
    let data = w.finish().unwrap();
    let cut = data[..data.len() - 28].to_vec();
    let end = cut.len() as u64;
    let mut r = bgzf::io::Reader::new(std::io::Cursor::new(cut));
    let mut all = Vec::new();
    r.read_to_end(&mut all).map_err(|e| e.to_string())?;
    if all != b"noodles" { return Err(format!("first pass read {:?}", all)); }
    let vp = bgzf::VirtualPosition::try_from((end, 0)).unwrap();
    match r.seek(vp) {
        Err(_) => return Ok("\"cases\":1".into()),
        Ok(_) => {}
    }
    let got_vp = r.virtual_position();
    let mut buf = Vec::new();
    r.read_to_end(&mut buf).map_err(|e| e.to_string())?;
    if !buf.is_empty() || got_vp != vp {
        return Err(format!("after seek to end-of-stream position ({end},0) of a marker-less BGZF file: virtual_position()={:?}, read_to_end returned {:?} (expected nothing)", got_vp, String::from_utf8_lossy(&buf)));
    }
    Ok("\"cases\":1".into())
}

/// F1: seek to (0,100) in a 7-byte block, then read_exact: must be an error, not a panic.
fn f1() -> Result<String, String> {
    let mut w = bgzf::io::Writer::new(Vec::new());
    w.write_all(b"noodles").unwrap();
    let data = w.finish().unwrap();
    let r = std::panic::catch_unwind(move || {
        let mut r = bgzf::io::Reader::new(std::io::Cursor::new(data));
        let vp = bgzf::VirtualPosition::try_from((0, 100)).unwrap();
        if r.seek(vp).is_err() { return true; }
        let mut b = [0u8; 1];
        let _ = r.read_exact(&mut b);
        true
    });
    match r { Ok(_) => Ok("\"cases\":1".into()), Err(_) => Err("seek to (0,100) in a 7-byte block then read_exact panics".into()) }
}
