//! Concrete witnesses of findings, executed on the real code.  Ok(..) = the defect is NOT observed.
use std::io::{Read, Write};
use noodles_bgzf as bgzf;

pub fn run(id: &str) -> Result<String, String> {
    match id {
        "F15" => f15(),
        "F16" => f16(),
        "F1" => f1(),
        "F2" => f2(),
        "F6" => f6(),
        "F12" => f12(),
        "F17" => f17(),
        "F24" => f24(),
        _ => Err(format!("unknown witness {id}")),
    }
}

/// F15: BGZF stream without the EOF marker, read with a >= 64 KiB buffer: after the last block
/// `read` must return Ok(0) (or an error), not a stale non-zero length.
fn f15() -> Result<String, String> {
    let mut w = bgzf::io::Writer::new(Vec::new());
    w.write_all(b"noodles").unwrap();
    let data = w.finish().unwrap();
    let cut = &data[..data.len() - 28]; // drop the EOF marker: still a valid BGZF file
    let mut r = bgzf::io::Reader::new(cut);
    let mut buf = vec![0u8; 65536];
    let n1 = r.read(&mut buf).map_err(|e| e.to_string())?;
    if n1 != 7 { return Err(format!("first read returned {n1}")); }
    let n2 = match r.read(&mut buf) { Ok(n) => n, Err(_) => 0 };
    if n2 != 0 { return Err(format!("read at end of a marker-less BGZF stream returned Ok({n2}) with a 65536-byte buffer; expected Ok(0)")); }
    Ok("\"cases\":1".into())
}

/// F16: seek to the end of a marker-less BGZF stream, then read: must yield nothing (not the previous block again).
fn f16() -> Result<String, String> {
    let mut w = bgzf::io::Writer::new(Vec::new());
    w.write_all(b"noodles").unwrap();
    let data = w.finish().unwrap();
    let cut = data[..data.len() - 28].to_vec();
    let end = cut.len() as u64;
    let mut r = bgzf::io::Reader::new(std::io::Cursor::new(cut));
    let mut all = Vec::new();
    r.read_to_end(&mut all).map_err(|e| e.to_string())?;
    if all != b"noodles" { return Err(format!("first pass read {:?}", all)); }
    let vp = bgzf::VirtualPosition::try_from((end, 0)).unwrap();
    match r.seek(vp) {
        Err(_) => return Ok("\"cases\":1".into()),
        Ok(_) => {}
    }
    let got_vp = r.virtual_position();
    let mut buf = Vec::new();
    r.read_to_end(&mut buf).map_err(|e| e.to_string())?;
    if !buf.is_empty() || got_vp != vp {
        return Err(format!("after seek to end-of-stream position ({end},0) of a marker-less BGZF file: virtual_position()={:?}, read_to_end returned {:?} (expected nothing)", got_vp, String::from_utf8_lossy(&buf)));
    }
    Ok("\"cases\":1".into())
}

/// F1: seek to (0,100) in a 7-byte block, then read_exact: must be an error, not a panic.
fn f1() -> Result<String, String> {
    let mut w = bgzf::io::Writer::new(Vec::new());
    w.write_all(b"noodles").unwrap();
    let data = w.finish().unwrap();
    let r = std::panic::catch_unwind(move || {
        let mut r = bgzf::io::Reader::new(std::io::Cursor::new(data));
        let vp = bgzf::VirtualPosition::try_from((0, 100)).unwrap();
        if r.seek(vp).is_err() { return true; }
        let mut b = [0u8; 1];
        let _ = r.read_exact(&mut b);
        true
    });
    match r { Ok(_) => Ok("\"cases\":1".into()), Err(_) => Err("seek to (0,100) in a 7-byte block then read_exact panics".into()) }
}

/// F2: CSI-style BinnedIndex min_offset is not a lower bound: CSI(14,5), records [1,200000]@0, [100000,100010]@100,
/// [150050,150060]@200; query 150000-150100 must still cover the chunk [0,100) of the long first record.
fn f2() -> Result<String, String> {
    use noodles_core::Position;
    use noodles_csi::{self as csi, BinningIndex, binning_index::{Indexer, index::reference_sequence::{bin::Chunk, index::BinnedIndex}}};
    let vp = |n: u64| bgzf::VirtualPosition::from(n);
    let p = |n: usize| Position::try_from(n).unwrap();
    let mut ix = Indexer::<BinnedIndex>::new(14, 5);
    ix.add_record(Some((0, p(1), p(200000), true)), Chunk::new(vp(0), vp(100))).map_err(|e| e.to_string())?;
    ix.add_record(Some((0, p(100000), p(100010), true)), Chunk::new(vp(100), vp(200))).map_err(|e| e.to_string())?;
    ix.add_record(Some((0, p(150050), p(150060), true)), Chunk::new(vp(200), vp(300))).map_err(|e| e.to_string())?;
    let index: csi::binning_index::Index<BinnedIndex> = ix.build(1);
    let chunks = index.query(0, (p(150000)..=p(150100)).into()).map_err(|e| e.to_string())?;
    let covered = chunks.iter().any(|c| c.start() <= vp(0) && vp(100) <= c.end());
    if covered { Ok("\"cases\":1".into()) } else {
        Err(format!("CSI(14,5) BinnedIndex: records [1,200000]@0 [100000,100010]@100 [150050,150060]@200; query 150000-150100 returns {:?}: the chunk [0,100) of the overlapping first record is pruned (min_offset is not a lower bound)", chunks.iter().map(|c| (u64::from(c.start()), u64::from(c.end()))).collect::<Vec<_>>()))
    }
}

struct OneByteFirst<'a> { data: &'a [u8], first: bool }
impl<'a> Read for OneByteFirst<'a> {
    fn read(&mut self, buf: &mut [u8]) -> std::io::Result<usize> {
        if self.first && !buf.is_empty() && !self.data.is_empty() { self.first = false; buf[0] = self.data[0]; self.data = &self.data[1..]; return Ok(1); }
        self.data.read(buf)
    }
}
/// F6: a source whose first read returns 1 byte makes the generic alignment reader take a BAM for SAM.
fn f6() -> Result<String, String> {
    use noodles_sam as sam;
    use noodles_util::alignment;
    let header = sam::Header::default();
    let mut w = noodles_bam::io::Writer::new(Vec::new());
    w.write_header(&header).map_err(|e| e.to_string())?;
    let rec = sam::alignment::RecordBuf::builder().set_name("r1").build();
    use sam::alignment::io::Write as _;
    w.write_alignment_record(&header, &rec).map_err(|e| e.to_string())?;
    w.try_finish().map_err(|e| e.to_string())?;
    let data = w.get_ref().get_ref().clone();
    let count = |src: Box<dyn Read>| -> Result<Vec<String>, String> {
        let mut r = alignment::io::reader::Builder::default().build_from_reader(src).map_err(|e| e.to_string())?;
        let h = r.read_header().map_err(|e| format!("read_header: {e}"))?;
        let mut names = Vec::new();
        for res in r.records(&h) { let rec = res.map_err(|e| format!("record: {e}"))?; names.push(format!("{:?}", rec.name())); }
        Ok(names)
    };
    let plain = count(Box::new(std::io::Cursor::new(data.clone())))?;
    let chunked = count(Box::new(OneByteFirst { data: Box::leak(data.into_boxed_slice()), first: true }));
    match chunked {
        Ok(n) if n == plain => Ok("\"cases\":1".into()),
        other => Err(format!("BAM through a Read whose first read returns 1 byte: plain delivery gives {:?}, chunked delivery gives {:?}", plain, other)),
    }
}

/// F12: a headerless SAM whose first QNAME starts with CRAM is sniffed as CRAM by the generic reader.
fn f12() -> Result<String, String> {
    use noodles_sam as sam;
    use noodles_util::alignment;
    use sam::alignment::io::Write as _;
    let header = sam::Header::default();
    let mut w = sam::io::Writer::new(Vec::new());
    w.write_header(&header).map_err(|e| e.to_string())?;
    let rec = sam::alignment::RecordBuf::builder().set_name("CRAMPUS1").build();
    w.write_alignment_record(&header, &rec).map_err(|e| e.to_string())?;
    let data = w.get_ref().clone();
    let mut r = alignment::io::reader::Builder::default().build_from_reader(std::io::Cursor::new(data)).map_err(|e| e.to_string())?;
    match r.read_header() {
        Ok(h) => { let n = r.records(&h).count(); if n == 1 { Ok("\"cases\":1".into()) } else { Err(format!("read back {n} records")) } }
        Err(e) => Err(format!("SAM writer output (default header, QNAME CRAMPUS1) is not recognised as SAM by the generic reader: read_header fails with '{e}'")),
    }
}

/// F17: the generic variant writer must emit raw BCF for (Bcf, no compression) and BGZF for (Bcf, Bgzf / default).
fn f17() -> Result<String, String> {
    use noodles_util::variant::io::{CompressionMethod, Format, writer::Builder};
    use noodles_vcf as vcf;
    let header = vcf::Header::default();
    let emit = |cm: Option<Option<CompressionMethod>>| -> Result<Vec<u8>, String> {
        let mut buf = Vec::new();
        {
            let mut b = Builder::default().set_format(Format::Bcf);
            if let Some(c) = cm { b = b.set_compression_method(c); }
            let mut w = b.build_from_writer(&mut buf);
            w.write_header(&header).map_err(|e| e.to_string())?;
        }
        Ok(buf)
    };
    let raw = emit(Some(None))?;
    let gz = emit(Some(Some(CompressionMethod::Bgzf)))?;
    let dflt = emit(None)?;
    let is_gz = |b: &[u8]| b.len() >= 2 && b[0] == 0x1f && b[1] == 0x8b;
    if !raw.starts_with(b"BCF") { return Err(format!("(Bcf, no compression) output starts with {:02x?}, expected the raw BCF magic", &raw[..raw.len().min(4)])); }
    if !is_gz(&gz) { return Err(format!("(Bcf, Bgzf) output starts with {:02x?}, expected a gzip member", &gz[..gz.len().min(4)])); }
    if !is_gz(&dflt) { return Err(format!("(Bcf, default compression) output starts with {:02x?}, expected a gzip member", &dflt[..dflt.len().min(4)])); }
    Ok("\"cases\":3".into())
}

/// F24: bcf lazy record reader: Reader::read_record indexes the site buffer (record/fields.rs `index`) with lengths and
/// counts taken from the file: a string length past the buffer, or n_allele = 0, must be an error, not a panic.
fn f24() -> Result<String, String> {
    let fixed = |n_allele: u16| -> Vec<u8> {
        let mut v = vec![0u8; 24];
        v[8] = 1; // rlen = 1
        v[12..16].copy_from_slice(&[0x01, 0x00, 0x80, 0x7f]); // qual = missing
        v[18..20].copy_from_slice(&n_allele.to_le_bytes());
        v
    };
    let rec = |site: Vec<u8>| -> Vec<u8> { let mut d = (site.len() as u32).to_le_bytes().to_vec(); d.extend(0u32.to_le_bytes()); d.extend(site); d };
    let mut cases: Vec<(&str, Vec<u8>)> = Vec::new();
    let mut a = fixed(1); a.push(0x77); cases.push(("ID string of declared length 7 with no bytes left", rec(a)));
    let mut b = fixed(0); b.extend([0x07, 0x17, b'N', 0x00]); cases.push(("n_allele = 0", rec(b)));
    let mut c = fixed(1); c.extend([0x07, 0x17, b'N', 0x71]); cases.push(("FILTER vector of declared length 7 with no bytes left", rec(c)));
    for (what, data) in cases {
        let r = std::panic::catch_unwind(move || {
            let mut reader = noodles_bcf::io::Reader::from(&data[..]);
            let mut record = noodles_bcf::Record::default();
            reader.read_record(&mut record).map(|_| ())
        });
        if r.is_err() { return Err(format!("bcf Reader::read_record PANICS on a record with {what}")); }
    }
    Ok("\"cases\":3".into())
}
