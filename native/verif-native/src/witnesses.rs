//! Concrete witnesses of findings, executed on the real code.  Ok(..) = the defect is NOT observed.
use std::io::{Read, Write};
use noodles_bgzf as bgzf;

pub fn run(id: &str) -> Result<String, String> {
    match id {
        "F15" => f15(),
        _ => Err(format!("unknown witness {id}")),
    }
}

/// F15: BGZF stream without the EOF marker, read with a >= 64 KiB buffer: after the last block
/// `read` must return Ok(0) (or an error), not a stale non-zero length.
fn f15() -> Result<String, String> {
    let mut w = bgzf::io::Writer::new(Vec::new());
    w.write_all(b"noodles").unwrap();
    let data = w.finish().unwrap();
    let cut = &data[..data.len() - 28]; // drop the EOF marker: still a valid BGZF file
    let mut r = bgzf::io::Reader::new(cut);
    let mut buf = vec![0u8; 65536];
    let n1 = r.read(&mut buf).map_err(|e| e.to_string())?;
    if n1 != 7 { return Err(format!("first read returned {n1}")); }
    let n2 = match r.read(&mut buf) { Ok(n) => n, Err(_) => 0 };
    if n2 != 0 { return Err(format!("read at end of a marker-less BGZF stream returned Ok({n2}) with a 65536-byte buffer; expected Ok(0)")); }
    Ok("\"cases\":1".into())
}
