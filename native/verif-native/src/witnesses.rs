//! Concrete witnesses of findings, executed on the real code.  Ok(..) = the defect is NOT observed.
use std::io::{Read, Write};
use noodles_bgzf as bgzf;

pub fn run(id: &str) -> Result<String, String> {
    match id {
        "F15" => f15(),
        "F16" => f16(),
        "F1" => f1(),
        "F2" => f2(),
        "F6" => f6(),
        "F12" => f12(),
        "F17" => f17(),
        "F3a" => f3a(),
        "F3b" => f3b(),
        "F24" => f24(),
        "F25" => f25(),
        "F26" => f26(),
        "F27" => f27(),
        "F28" => f28(),
        "F29" => f29(),
        "F30" => f30(),
        "F32" => f32_(),
        "F36" => f36(),
        "F37" => f37(),
        "F38" => f38(),
        "F39" => f39(),
        "F46" => f46_text_lazy_readers(),
        "F51" => f51(),
        "F59" => f59(),
        "F64" => f64_crai(),
        "F69" => f69(),
        "F75" => f75(),
        "F77" => f77(),
        "F78" => f78(),
        "F80" => f80(),
        "F82" => f82(),
        _ => Err(format!("unknown witness {id}")),
    }
}

/// F15: BGZF stream without the EOF marker, read with a >= 64 KiB buffer: after the last block
/// `read` must return Ok(0) (or an error), not a stale non-zero length.
fn f15() -> Result<String, String> {
    let mut w = bgzf::io::Writer::new(Vec::new());
    w.write_all(b"noodles").unwrap();
    let data = w.finish().unwrap();
    let cut = &data[..data.len() - 28]; // drop the EOF marker: still a valid BGZF file
    let mut r = bgzf::io::Reader::new(cut);
    let mut buf = vec![0u8; 65536];
    let n1 = r.read(&mut buf).map_err(|e| e.to_string())?;
    if n1 != 7 { return Err(format!("first read returned {n1}")); }
    let n2 = match r.read(&mut buf) { Ok(n) => n, Err(_) => 0 };
    if n2 != 0 { return Err(format!("read at end of a marker-less BGZF stream returned Ok({n2}) with a 65536-byte buffer; expected Ok(0)")); }
    Ok("\"cases\":1".into())
}

/// F16: seek to the end of a marker-less BGZF stream, then read: must yield nothing (not the previous block again).
fn f16() -> Result<String, String> {
    let mut w = bgzf::io::Writer::new(Vec::new());
    w.write_all(b"noodles").unwrap();
    let data = w.finish().unwrap();
    let cut = data[..data.len() - 28].to_vec();
    let end = cut.len() as u64;
    let mut r = bgzf::io::Reader::new(std::io::Cursor::new(cut));
    let mut all = Vec::new();
    r.read_to_end(&mut all).map_err(|e| e.to_string())?;
    if all != b"noodles" { return Err(format!("first pass read {:?}", all)); }
    let vp = bgzf::VirtualPosition::try_from((end, 0)).unwrap();
    match r.seek(vp) {
        Err(_) => return Ok("\"cases\":1".into()),
        Ok(_) => {}
    }
    let got_vp = r.virtual_position();
    let mut buf = Vec::new();
    r.read_to_end(&mut buf).map_err(|e| e.to_string())?;
    if !buf.is_empty() || got_vp != vp {
        return Err(format!("after seek to end-of-stream position ({end},0) of a marker-less BGZF file: virtual_position()={:?}, read_to_end returned {:?} (expected nothing)", got_vp, String::from_utf8_lossy(&buf)));
    }
    Ok("\"cases\":1".into())
}

/// F1: seek to (0,100) in a 7-byte block, then read_exact: must be an error, not a panic.
fn f1() -> Result<String, String> {
    let mut w = bgzf::io::Writer::new(Vec::new());
    w.write_all(b"noodles").unwrap();
    let data = w.finish().unwrap();
    let r = std::panic::catch_unwind(move || {
        let mut r = bgzf::io::Reader::new(std::io::Cursor::new(data));
        let vp = bgzf::VirtualPosition::try_from((0, 100)).unwrap();
        if r.seek(vp).is_err() { return true; }
        let mut b = [0u8; 1];
        let _ = r.read_exact(&mut b);
        true
    });
    match r { Ok(_) => Ok("\"cases\":1".into()), Err(_) => Err("seek to (0,100) in a 7-byte block then read_exact panics".into()) }
}

/// F2: CSI-style BinnedIndex min_offset is not a lower bound: CSI(14,5), records [1,200000]@0, [100000,100010]@100,
/// [150050,150060]@200; query 150000-150100 must still cover the chunk [0,100) of the long first record.
fn f2() -> Result<String, String> {
    use noodles_core::Position;
    use noodles_csi::{self as csi, BinningIndex, binning_index::{Indexer, index::reference_sequence::{bin::Chunk, index::BinnedIndex}}};
    let vp = |n: u64| bgzf::VirtualPosition::from(n);
    let p = |n: usize| Position::try_from(n).unwrap();
    let mut ix = Indexer::<BinnedIndex>::new(14, 5);
    ix.add_record(Some((0, p(1), p(200000), true)), Chunk::new(vp(0), vp(100))).map_err(|e| e.to_string())?;
    ix.add_record(Some((0, p(100000), p(100010), true)), Chunk::new(vp(100), vp(200))).map_err(|e| e.to_string())?;
    ix.add_record(Some((0, p(150050), p(150060), true)), Chunk::new(vp(200), vp(300))).map_err(|e| e.to_string())?;
    let index: csi::binning_index::Index<BinnedIndex> = ix.build(1);
    let chunks = index.query(0, (p(150000)..=p(150100)).into()).map_err(|e| e.to_string())?;
    let covered = chunks.iter().any(|c| c.start() <= vp(0) && vp(100) <= c.end());
    if covered { Ok("\"cases\":1".into()) } else {
        Err(format!("CSI(14,5) BinnedIndex: records [1,200000]@0 [100000,100010]@100 [150050,150060]@200; query 150000-150100 returns {:?}: the chunk [0,100) of the overlapping first record is pruned (min_offset is not a lower bound)", chunks.iter().map(|c| (u64::from(c.start()), u64::from(c.end()))).collect::<Vec<_>>()))
    }
}

struct OneByteFirst<'a> { data: &'a [u8], first: bool }
impl<'a> Read for OneByteFirst<'a> {
    fn read(&mut self, buf: &mut [u8]) -> std::io::Result<usize> {
        if self.first && !buf.is_empty() && !self.data.is_empty() { self.first = false; buf[0] = self.data[0]; self.data = &self.data[1..]; return Ok(1); }
        self.data.read(buf)
    }
}
/// F6: a source whose first read returns 1 byte makes the generic alignment reader take a BAM for SAM.
fn f6() -> Result<String, String> {
    use noodles_sam as sam;
    use noodles_util::alignment;
    let header = sam::Header::default();
    let mut w = noodles_bam::io::Writer::new(Vec::new());
    w.write_header(&header).map_err(|e| e.to_string())?;
    let rec = sam::alignment::RecordBuf::builder().set_name("r1").build();
    use sam::alignment::io::Write as _;
    w.write_alignment_record(&header, &rec).map_err(|e| e.to_string())?;
    w.try_finish().map_err(|e| e.to_string())?;
    let data = w.get_ref().get_ref().clone();
    let count = |src: Box<dyn Read>| -> Result<Vec<String>, String> {
        let mut r = alignment::io::reader::Builder::default().build_from_reader(src).map_err(|e| e.to_string())?;
        let h = r.read_header().map_err(|e| format!("read_header: {e}"))?;
        let mut names = Vec::new();
        for res in r.records(&h) { let rec = res.map_err(|e| format!("record: {e}"))?; names.push(format!("{:?}", rec.name())); }
        Ok(names)
    };
    let plain = count(Box::new(std::io::Cursor::new(data.clone())))?;
    let chunked = count(Box::new(OneByteFirst { data: Box::leak(data.into_boxed_slice()), first: true }));
    match chunked {
        Ok(n) if n == plain => Ok("\"cases\":1".into()),
        other => Err(format!("BAM through a Read whose first read returns 1 byte: plain delivery gives {:?}, chunked delivery gives {:?}", plain, other)),
    }
}

/// F12: a headerless SAM whose first QNAME starts with CRAM is sniffed as CRAM by the generic reader.
fn f12() -> Result<String, String> {
    use noodles_sam as sam;
    use noodles_util::alignment;
    use sam::alignment::io::Write as _;
    let header = sam::Header::default();
    let mut w = sam::io::Writer::new(Vec::new());
    w.write_header(&header).map_err(|e| e.to_string())?;
    let rec = sam::alignment::RecordBuf::builder().set_name("CRAMPUS1").build();
    w.write_alignment_record(&header, &rec).map_err(|e| e.to_string())?;
    let data = w.get_ref().clone();
    let mut r = alignment::io::reader::Builder::default().build_from_reader(std::io::Cursor::new(data)).map_err(|e| e.to_string())?;
    match r.read_header() {
        Ok(h) => { let n = r.records(&h).count(); if n == 1 { Ok("\"cases\":1".into()) } else { Err(format!("read back {n} records")) } }
        Err(e) => Err(format!("SAM writer output (default header, QNAME CRAMPUS1) is not recognised as SAM by the generic reader: read_header fails with '{e}'")),
    }
}

/// F17: the generic variant writer must emit raw BCF for (Bcf, no compression) and BGZF for (Bcf, Bgzf / default).
fn f17() -> Result<String, String> {
    use noodles_util::variant::io::{CompressionMethod, Format, writer::Builder};
    use noodles_vcf as vcf;
    let header = vcf::Header::default();
    let emit = |cm: Option<Option<CompressionMethod>>| -> Result<Vec<u8>, String> {
        let mut buf = Vec::new();
        {
            let mut b = Builder::default().set_format(Format::Bcf);
            if let Some(c) = cm { b = b.set_compression_method(c); }
            let mut w = b.build_from_writer(&mut buf);
            w.write_header(&header).map_err(|e| e.to_string())?;
        }
        Ok(buf)
    };
    let raw = emit(Some(None))?;
    let gz = emit(Some(Some(CompressionMethod::Bgzf)))?;
    let dflt = emit(None)?;
    let is_gz = |b: &[u8]| b.len() >= 2 && b[0] == 0x1f && b[1] == 0x8b;
    if !raw.starts_with(b"BCF") { return Err(format!("(Bcf, no compression) output starts with {:02x?}, expected the raw BCF magic", &raw[..raw.len().min(4)])); }
    if !is_gz(&gz) { return Err(format!("(Bcf, Bgzf) output starts with {:02x?}, expected a gzip member", &gz[..gz.len().min(4)])); }
    if !is_gz(&dflt) { return Err(format!("(Bcf, default compression) output starts with {:02x?}, expected a gzip member", &dflt[..dflt.len().min(4)])); }
    Ok("\"cases\":3".into())
}

/// F24: bcf lazy record reader: Reader::read_record indexes the site buffer (record/fields.rs `index`) with lengths and
/// counts taken from the file: a string length past the buffer, or n_allele = 0, must be an error, not a panic.
fn f24() -> Result<String, String> {
    let fixed = |n_allele: u16| -> Vec<u8> {
        let mut v = vec![0u8; 24];
        v[8] = 1; // rlen = 1
        v[12..16].copy_from_slice(&[0x01, 0x00, 0x80, 0x7f]); // qual = missing
        v[18..20].copy_from_slice(&n_allele.to_le_bytes());
        v
    };
    let rec = |site: Vec<u8>| -> Vec<u8> { let mut d = (site.len() as u32).to_le_bytes().to_vec(); d.extend(0u32.to_le_bytes()); d.extend(site); d };
    let mut cases: Vec<(&str, Vec<u8>)> = Vec::new();
    let mut a = fixed(1); a.push(0x77); cases.push(("ID string of declared length 7 with no bytes left", rec(a)));
    let mut b = fixed(0); b.extend([0x07, 0x17, b'N', 0x00]); cases.push(("n_allele = 0", rec(b)));
    let mut c = fixed(1); c.extend([0x07, 0x17, b'N', 0x71]); cases.push(("FILTER vector of declared length 7 with no bytes left", rec(c)));
    for (what, data) in cases {
        let r = std::panic::catch_unwind(move || {
            let mut reader = noodles_bcf::io::Reader::from(&data[..]);
            let mut record = noodles_bcf::Record::default();
            reader.read_record(&mut record).map(|_| ())
        });
        if r.is_err() { return Err(format!("bcf Reader::read_record PANICS on a record with {what}")); }
    }
    Ok("\"cases\":3".into())
}

/// F25: bcf lazy samples: a series whose declared type length x sample count overruns the samples buffer, or whose type
/// descriptor is the "missing" type 0, must be an error when the series are enumerated, not a panic.
fn f25() -> Result<String, String> {
    let site = || -> Vec<u8> {
        let mut v = vec![0u8; 24];
        v[8] = 1; v[12..16].copy_from_slice(&[0x01, 0x00, 0x80, 0x7f]);
        v[18..20].copy_from_slice(&1u16.to_le_bytes()); // n_allele = 1
        v[20] = 1; // n_sample = 1
        v[23] = 1; // n_fmt = 1
        v.extend([0x07, 0x17, b'N', 0x00]); v
    };
    let rec = |samples: Vec<u8>| -> Vec<u8> { let s = site(); let mut d = (s.len() as u32).to_le_bytes().to_vec(); d.extend((samples.len() as u32).to_le_bytes()); d.extend(s); d.extend(samples); d };
    let cases: Vec<(&str, Vec<u8>)> = vec![
        ("a FORMAT series of 1 x Int8[4] with no value bytes", rec(vec![0x11, 0x00, 0x41])),
        ("a FORMAT series whose type descriptor is 0x00", rec(vec![0x11, 0x00, 0x00])),
    ];
    for (what, data) in cases {
        let r = std::panic::catch_unwind(move || {
            let mut reader = noodles_bcf::io::Reader::from(&data[..]);
            let mut record = noodles_bcf::Record::default();
            if reader.read_record(&mut record).is_err() { return; }
            if let Ok(samples) = record.samples() { for s in samples.series() { let _ = s; } }
        });
        if r.is_err() { return Err(format!("enumerating the FORMAT series of a bcf record with {what} PANICS")); }
    }
    Ok("\"cases\":2".into())
}

/// F26: bcf lazy samples: Series::get / Genotype::iter on a record that was returned Ok must not panic whatever the series bytes are.
fn f26() -> Result<String, String> {
    use noodles_vcf::variant::record::samples::series::Value;
    let header_text = "##fileformat=VCFv4.4\n##FILTER=<ID=PASS,Description=\"All filters passed\">\n##FORMAT=<ID=GT,Number=1,Type=String,Description=\"\">\n##FORMAT=<ID=DP,Number=1,Type=Integer,Description=\"\">\n##FORMAT=<ID=CH,Number=1,Type=Character,Description=\"\">\n##FORMAT=<ID=FL,Number=1,Type=Float,Description=\"\">\n##contig=<ID=sq0>\n#CHROM\tPOS\tID\tREF\tALT\tQUAL\tFILTER\tINFO\tFORMAT\ts0\n";
    let mut header: noodles_vcf::Header = header_text.parse().map_err(|e| format!("header: {e}"))?;
    *header.string_maps_mut() = noodles_vcf::header::StringMaps::try_from(&header).map_err(|e| format!("string maps: {e}"))?;
    let idx = |name: &str| header.string_maps().strings().get_index_of(name).unwrap() as u8;
    let (gt, dp, ch, fl, pass) = (idx("GT"), idx("DP"), idx("CH"), idx("FL"), idx("PASS"));
    let site = || -> Vec<u8> {
        let mut v = vec![0u8; 24];
        v[8] = 1; v[12..16].copy_from_slice(&[0x01, 0x00, 0x80, 0x7f]);
        v[18..20].copy_from_slice(&1u16.to_le_bytes());
        v[20] = 1; v[23] = 1;
        v.extend([0x07, 0x17, b'N', 0x00]); v
    };
    let rec = |samples: Vec<u8>| -> Vec<u8> { let s = site(); let mut d = (s.len() as u32).to_le_bytes().to_vec(); d.extend((samples.len() as u32).to_le_bytes()); d.extend(s); d.extend(samples); d };
    let cases: Vec<(&str, Vec<u8>)> = vec![
        ("a Number=1 Integer series holding the Int8 end-of-vector code", rec(vec![0x11, dp, 0x11, 0x81])),
        ("a Number=1 Integer series holding a reserved Int8 code", rec(vec![0x11, dp, 0x11, 0x83])),
        ("a Number=1 Integer series stored as Int16[2]", rec(vec![0x11, dp, 0x22, 1, 0, 2, 0])),
        ("a Number=1 Integer series stored as Int32[2]", rec(vec![0x11, dp, 0x23, 1, 0, 0, 0, 2, 0, 0, 0])),
        ("a Number=1 Integer series holding the Int16 end-of-vector code", rec(vec![0x11, dp, 0x12, 0x01, 0x80])),
        ("a Number=1 Float series holding the end-of-vector NaN", rec(vec![0x11, fl, 0x15, 0x02, 0x00, 0x80, 0x7f])),
        ("a Number=1 Float series stored as Float[2]", rec(vec![0x11, fl, 0x25, 0, 0, 0, 0, 0, 0, 0, 0])),
        ("a series keyed by a string that is not a FORMAT id", rec(vec![0x11, pass, 0x11, 0x01])),
        ("a GT series stored as Int16", rec(vec![0x11, gt, 0x12, 0x02, 0x00])),
        ("a GT series of ploidy 0 under VCF 4.4", rec(vec![0x11, gt, 0x01])),
        ("a Character series that is not UTF-8", rec(vec![0x11, ch, 0x17, 0xff])),
        ("a Character series of length 0", rec(vec![0x11, ch, 0x07])),
        ("an Integer series stored as Float", rec(vec![0x11, dp, 0x15, 0, 0, 0, 0])),
    ];
    let n = cases.len();
    let mut bad: Vec<&str> = Vec::new();
    for (what, data) in cases {
        let h = header.clone();
        let r = std::panic::catch_unwind(move || {
            let mut reader = noodles_bcf::io::Reader::from(&data[..]);
            let mut record = noodles_bcf::Record::default();
            if reader.read_record(&mut record).is_err() { return 0; }
            let Ok(samples) = record.samples() else { return 0; };
            let mut touched = 0;
            for s in samples.series() {
                let Ok(s) = s else { continue; };
                for i in [0usize, 1, usize::MAX] {
                    touched += 1;
                    if let Some(Some(Ok(Value::Genotype(g)))) = s.get(&h, i) { for a in g.iter() { let _ = a; } }
                }
            }
            touched
        });
        match r { Err(_) => bad.push(what), Ok(0) => return Err(format!("witness case did not reach Series::get: {what}")), Ok(_) => {} }
    }
    if !bad.is_empty() { return Err(format!("Series::get / Genotype::iter PANICS on a bcf record with: {}", bad.join("; "))); }
    Ok(format!("\"cases\":{n}"))
}

/// F27: bcf lazy record: Ids::iter on non-UTF-8 ID bytes and Record::end on a telomeric position (POS = 0, stored as -1) panicked.
fn f27() -> Result<String, String> {
    use noodles_vcf::variant::record::Ids as _;
    let rec = |pos: i32, rlen: i32, id: &[u8]| -> Vec<u8> {
        let mut v = vec![0u8; 24];
        v[4..8].copy_from_slice(&pos.to_le_bytes()); v[8..12].copy_from_slice(&rlen.to_le_bytes());
        v[12..16].copy_from_slice(&[0x01, 0x00, 0x80, 0x7f]);
        v[18..20].copy_from_slice(&1u16.to_le_bytes());
        v.push(((id.len() as u8) << 4) | 0x07); v.extend(id);
        v.extend([0x17, b'N', 0x00]);
        let mut d = (v.len() as u32).to_le_bytes().to_vec(); d.extend(0u32.to_le_bytes()); d.extend(v); d
    };
    let cases: Vec<(&str, Vec<u8>)> = vec![
        ("an ID that is not UTF-8", rec(0, 1, &[0xff, 0xfe])),
        ("POS = 0 (stored as -1)", rec(-1, 1, b"")),
        ("rlen = 0", rec(5, 0, b"")),
    ];
    let n = cases.len();
    let mut bad: Vec<&str> = Vec::new();
    for (what, data) in cases {
        let r = std::panic::catch_unwind(move || {
            let mut reader = noodles_bcf::io::Reader::from(&data[..]);
            let mut record = noodles_bcf::Record::default();
            if reader.read_record(&mut record).is_err() { return; }
            for id in record.ids().iter() { let _ = id; }
            let _ = record.ids().len();
            let _ = record.end();
            let _ = record.variant_start();
        });
        if r.is_err() { bad.push(what); }
    }
    if !bad.is_empty() { return Err(format!("Record::ids().iter() / Record::end() PANICS on a bcf record with: {}", bad.join("; "))); }
    Ok(format!("\"cases\":{n}"))
}

/// F28: fasta region query whose start lies beyond the end of the sequence must not return bytes of the next record.
fn f28() -> Result<String, String> {
    use std::io::Cursor;
    let mut bad = Vec::new();
    let mut n = 0;
    let sets: Vec<(&[u8], Vec<(&str, &str)>)> = vec![
        (b">sq0\nACGT\nAC\n>sq1 desc\nGGGG\n", vec![("sq0:1-6", "ACGTAC"), ("sq0:5-100", "AC"), ("sq0:6-7", "C"), ("sq0:7-9", ""), ("sq0:8-9", ""), ("sq0:9-12", ""), ("sq0:12-20", ""), ("sq0:15-20", "")]),
        // CRLF first line, LF-only full last line: accepted by the indexer (last line may be narrower)
        (b">sq0\nACGT\r\nACGT\n>sq1\nGGGG\n", vec![("sq0:1-8", "ACGTACGT"), ("sq0:8-9", "T"), ("sq0:9-10", ""), ("sq0:10-12", "")]),
        (b">sq0\nACGT\nACGT\n>sq1\nGGGG\n", vec![("sq0:9-10", ""), ("sq0:8", "T"), ("sq1:4-9", "G"), ("sq1:5-9", "")]),
    ];
    for (data, cases) in sets {
        let mut indexer = noodles_fasta::io::Indexer::new(data);
        let mut records = Vec::new();
        while let Some(r) = indexer.index_record().map_err(|e| format!("index: {e}"))? { records.push(r); }
        let index = noodles_fasta::fai::Index::from(records);
        for (region, expected) in cases {
            n += 1;
            let mut reader = noodles_fasta::io::Reader::new(Cursor::new(data.to_vec()));
            let region: noodles_core::Region = region.parse().map_err(|e| format!("region: {e}"))?;
            match reader.query(&index, &region) {
                Ok(rec) => { let got = String::from_utf8_lossy(rec.sequence().as_ref()).to_string(); if got != expected { bad.push(format!("{region} of {:?} -> {got:?} (expected {expected:?})", String::from_utf8_lossy(data))); } }
                Err(_) => {} // an error is not a wrong answer
            }
        }
    }
    if !bad.is_empty() { return Err(format!("fasta Reader::query returns bytes of the NEXT record for a start beyond the sequence end: {}", bad.join("; "))); }
    Ok(format!("\"cases\":{n}"))
}

/// F29: a mapped record whose CIGAR consumes no reference bases (4S, 4I) must be written by the CRAM writer and read back
/// (it panicked with overflow checks and wrote an unreadable alignment span of 0 without them)
fn f29() -> Result<String, String> {
    use noodles_sam as sam;
    use sam::alignment::io::Write as _;
    use sam::alignment::record::cigar::{Op, op::Kind};
    use sam::alignment::record_buf::{Cigar, Sequence, QualityScores};
    use std::num::NonZero;
    let header = sam::Header::builder()
        .add_reference_sequence("sq0", sam::header::record::value::Map::<sam::header::record::value::map::ReferenceSequence>::new(NonZero::new(100usize).unwrap()))
        .build();
    let mut bad = Vec::new();
    for (what, pos, cigar) in [("4S at 5", 5usize, vec![Op::new(Kind::SoftClip, 4)]), ("4I at 5", 5, vec![Op::new(Kind::Insertion, 4)]), ("4S at 1", 1, vec![Op::new(Kind::SoftClip, 4)]), ("4M at 5", 5, vec![Op::new(Kind::Match, 4)])] {
        let h = header.clone();
        let r = std::panic::catch_unwind(move || -> Result<usize, String> {
            let rec = sam::alignment::RecordBuf::builder()
                .set_name("r0").set_flags(sam::alignment::record::Flags::empty()).set_reference_sequence_id(0)
                .set_alignment_start(noodles_core::Position::new(pos).unwrap())
                .set_cigar(Cigar::from(cigar)).set_sequence(Sequence::from(b"ACGT".to_vec())).set_quality_scores(QualityScores::from(vec![30, 30, 30, 30]))
                .build();
            let repo = noodles_fasta::Repository::new(vec![noodles_fasta::Record::new(noodles_fasta::record::Definition::new("sq0", None), noodles_fasta::record::Sequence::from(vec![b'A'; 100]))]);
            let mut w = noodles_cram::io::writer::Builder::default().set_reference_sequence_repository(repo.clone()).build_from_writer(Vec::new());
            w.write_header(&h).map_err(|e| format!("write_header: {e}"))?;
            w.write_alignment_record(&h, &rec).map_err(|e| format!("write: {e}"))?;
            w.try_finish(&h).map_err(|e| format!("finish: {e}"))?;
            let data = w.get_ref().clone();
            let mut rd = noodles_cram::io::reader::Builder::default().set_reference_sequence_repository(repo).build_from_reader(&data[..]);
            let h2 = rd.read_header().map_err(|e| format!("read_header: {e}"))?;
            let mut n = 0;
            for r in rd.records(&h2) {
                let r = r.map_err(|e| format!("read: {e}"))?; n += 1;
                if r.alignment_start() != rec.alignment_start() || r.cigar() != rec.cigar() || r.sequence() != rec.sequence() || r.reference_sequence_id() != rec.reference_sequence_id() {
                    return Err(format!("read back a different record: {:?} {:?}", r.alignment_start(), r.cigar()));
                }
            }
            Ok(n)
        });
        match r { Err(_) => bad.push(format!("{what}: PANIC")), Ok(Err(e)) => bad.push(format!("{what}: {e}")), Ok(Ok(1)) => {}, Ok(Ok(n)) => bad.push(format!("{what}: {n} records")) }
    }
    if bad.is_empty() { Ok("\"cases\":6".into()) } else { Err(format!("CRAM write+read of records without quality scores fails: {}", bad.join("; "))) }
}

/// F3a: querying a CSI/BAI index that stores a bin id beyond the geometry's bin range must not panic.
fn f3a() -> Result<String, String> {
    use noodles_csi::{self as csi, binning_index::{BinningIndex, index::{ReferenceSequence, reference_sequence::{Bin, index::BinnedIndex}}}};
    let mut n = 0;
    for id in [37449usize, 37450, 40000, 1 << 20, usize::MAX] {
        n += 1;
        let r = std::panic::catch_unwind(move || {
            let bins = [(id, Bin::new(Vec::new()))].into_iter().collect();
            let rs: ReferenceSequence<BinnedIndex> = ReferenceSequence::new(bins, BinnedIndex::default(), None);
            let index = csi::binning_index::Index::builder().set_min_shift(14).set_depth(5).set_reference_sequences(vec![rs]).build();
            let region: noodles_core::Region = "sq0:1-1000".parse().unwrap();
            let _ = index.query(0, region.interval());
        });
        if r.is_err() { return Err(format!("csi Index::query PANICS when the index stores bin id {id} (geometry 14/5)")); }
    }
    Ok(format!("\"cases\":{n}"))
}

/// F3b: csi read_index must reject geometries the query code cannot handle (depth > 10, min_shift = 0, shift overflow) instead of panicking later.
fn f3b() -> Result<String, String> {
    use std::io::Write as _;
    let mut n = 0;
    for (min_shift, depth) in [(14i32, 11i32), (0, 5), (40, 10), (63, 1), (-1, 5), (14, -1), (14, 255), (14, 10), (1, 10)] {
        n += 1;
        let mut raw = b"CSI\x01".to_vec();
        raw.extend(min_shift.to_le_bytes()); raw.extend(depth.to_le_bytes()); raw.extend(0i32.to_le_bytes());
        raw.extend(1i32.to_le_bytes()); // n_ref
        raw.extend(0i32.to_le_bytes()); // n_bin
        let mut w = noodles_bgzf::io::Writer::new(Vec::new());
        w.write_all(&raw).map_err(|e| e.to_string())?;
        let data = w.finish().map_err(|e| e.to_string())?;
        let r = std::panic::catch_unwind(move || {
            use noodles_csi::binning_index::BinningIndex;
            let mut reader = noodles_csi::io::Reader::new(&data[..]);
            if let Ok(index) = reader.read_index() {
                let region: noodles_core::Region = "sq0:1-1000".parse().unwrap();
                let _ = index.query(0, region.interval());
            }
        });
        if r.is_err() { return Err(format!("reading/querying a CSI index with min_shift={min_shift}, depth={depth} PANICS")); }
    }
    Ok(format!("\"cases\":{n}"))
}

/// F30: an index / header / container whose announced entry count is huge must be an error (the entries are not there),
/// not an up-front allocation of tens of gigabytes that aborts the process. Each case runs in a child process whose
/// allocator refuses any single request above 1 GiB (main.rs), so the outcome does not depend on the host's memory.
fn f30() -> Result<String, String> {
    let exe = std::env::current_exe().map_err(|e| e.to_string())?;
    let cases = ["csi-n_bin", "tabix-n_bin", "bai-n_ref", "bai-n_bin", "bam-n_ref"];
    let mut bad = Vec::new();
    for c in cases {
        let st = std::process::Command::new("sh").arg("-c")
            .arg(format!("exec {} child-F30-{} 2>/dev/null", exe.display(), c))
            .status().map_err(|e| e.to_string())?;
        if !st.success() { bad.push(format!("{c}: child ended with {st}")); }
    }
    if !bad.is_empty() { return Err(format!("a reader given a huge entry count ABORTS (memory allocation failed) instead of returning an error: {}", bad.join("; "))); }
    Ok(format!("\"cases\":{}", cases.len()))
}
fn bgzf(raw: &[u8]) -> Vec<u8> { use std::io::Write as _; let mut w = noodles_bgzf::io::Writer::new(Vec::new()); w.write_all(raw).unwrap(); w.finish().unwrap() }
pub fn child(name: &str) {
    match name {
        "F30-csi-n_bin" => {
            let mut raw = b"CSI\x01".to_vec();
            raw.extend(14i32.to_le_bytes()); raw.extend(5i32.to_le_bytes()); raw.extend(0i32.to_le_bytes());
            raw.extend(1i32.to_le_bytes()); raw.extend(i32::MAX.to_le_bytes());
            let data = bgzf(&raw);
            let r = noodles_csi::io::Reader::new(&data[..]).read_index();
            assert!(r.is_err());
        }
        "F30-tabix-n_bin" => {
            let mut raw = b"TBI\x01".to_vec();
            raw.extend(1i32.to_le_bytes()); // n_ref
            raw.extend(0i32.to_le_bytes()); raw.extend(1i32.to_le_bytes()); raw.extend(2i32.to_le_bytes()); raw.extend(0i32.to_le_bytes()); // format, col_seq, col_beg, col_end
            raw.extend((b'#' as i32).to_le_bytes()); raw.extend(0i32.to_le_bytes()); // meta, skip
            raw.extend(4i32.to_le_bytes()); raw.extend(b"sq0\0"); // l_nm, names
            raw.extend(i32::MAX.to_le_bytes()); // n_bin
            let data = bgzf(&raw);
            let r = noodles_tabix::io::Reader::new(&data[..]).read_index();
            assert!(r.is_err());
        }
        "F30-bai-n_ref" => {
            let mut raw = b"BAI\x01".to_vec(); raw.extend(u32::MAX.to_le_bytes());
            let r = noodles_bam::bai::io::Reader::new(&raw[..]).read_index();
            assert!(r.is_err());
        }
        "F30-bai-n_bin" => {
            let mut raw = b"BAI\x01".to_vec(); raw.extend(1u32.to_le_bytes()); raw.extend(u32::MAX.to_le_bytes());
            let r = noodles_bam::bai::io::Reader::new(&raw[..]).read_index();
            assert!(r.is_err());
        }
        "F30-bam-n_ref" => {
            let mut raw = b"BAM\x01".to_vec(); raw.extend(0u32.to_le_bytes()); raw.extend(u32::MAX.to_le_bytes());
            let data = bgzf(&raw);
            let r = noodles_bam::io::Reader::new(&data[..]).read_header();
            assert!(r.is_err());
        }
        _ => std::process::exit(2),
    }
}

/// F32: the RecordBuf decoder of bcf (Reader::read_record_buf) must report reserved codes, mismatching types and empty
/// character values as errors; it hit todo!()/expect()/unwrap().
fn f32_() -> Result<String, String> {
    let header_text = "##fileformat=VCFv4.4\n##FILTER=<ID=PASS,Description=\"All filters passed\">\n##INFO=<ID=AC,Number=A,Type=Integer,Description=\"\">\n##INFO=<ID=AF,Number=A,Type=Float,Description=\"\">\n##FORMAT=<ID=GT,Number=1,Type=String,Description=\"\">\n##FORMAT=<ID=DP,Number=1,Type=Integer,Description=\"\">\n##FORMAT=<ID=AD,Number=R,Type=Integer,Description=\"\">\n##FORMAT=<ID=CH,Number=1,Type=Character,Description=\"\">\n##FORMAT=<ID=CA,Number=.,Type=Character,Description=\"\">\n##FORMAT=<ID=FL,Number=1,Type=Float,Description=\"\">\n##contig=<ID=sq0>\n#CHROM\tPOS\tID\tREF\tALT\tQUAL\tFILTER\tINFO\tFORMAT\ts0\n";
    let mut header: noodles_vcf::Header = header_text.parse().map_err(|e| format!("header: {e}"))?;
    *header.string_maps_mut() = noodles_vcf::header::StringMaps::try_from(&header).map_err(|e| format!("string maps: {e}"))?;
    let idx = |name: &str| header.string_maps().strings().get_index_of(name).unwrap() as u8;
    let (gt, dp, ad, ch, ca, fl, ac, af) = (idx("GT"), idx("DP"), idx("AD"), idx("CH"), idx("CA"), idx("FL"), idx("AC"), idx("AF"));
    let site = |n_info: u16, info: &[u8], n_fmt: u8| -> Vec<u8> {
        let mut v = vec![0u8; 24];
        v[8] = 1; v[12..16].copy_from_slice(&[0x01, 0x00, 0x80, 0x7f]);
        v[16..18].copy_from_slice(&n_info.to_le_bytes());
        v[18..20].copy_from_slice(&1u16.to_le_bytes());
        v[20] = if n_fmt > 0 { 1 } else { 0 }; v[23] = n_fmt;
        v.extend([0x07, 0x17, b'N', 0x00]); v.extend(info); v
    };
    let rec = |s: Vec<u8>, samples: Vec<u8>| -> Vec<u8> { let mut d = (s.len() as u32).to_le_bytes().to_vec(); d.extend((samples.len() as u32).to_le_bytes()); d.extend(s); d.extend(samples); d };
    let fmt = |samples: Vec<u8>| rec(site(0, &[], 1), samples);
    let cases: Vec<(&str, Vec<u8>)> = vec![
        ("a Number=1 Integer series holding a reserved Int8 code", fmt(vec![0x11, dp, 0x11, 0x83])),
        ("a Number=1 Integer series holding the Int8 end-of-vector code", fmt(vec![0x11, dp, 0x11, 0x81])),
        ("a Number=1 Integer series holding a reserved Int16 code", fmt(vec![0x11, dp, 0x12, 0x03, 0x80])),
        ("a Number=1 Integer series holding a reserved Int32 code", fmt(vec![0x11, dp, 0x13, 0x03, 0x00, 0x00, 0x80])),
        ("a Number=1 Float series holding a reserved NaN", fmt(vec![0x11, fl, 0x15, 0x03, 0x00, 0x80, 0x7f])),
        ("a Number=R Integer series with a reserved Int8 code in the vector", fmt(vec![0x11, ad, 0x21, 0x05, 0x84])),
        ("a Number=R Integer series with a reserved Int16 code in the vector", fmt(vec![0x11, ad, 0x22, 0x05, 0x00, 0x04, 0x80])),
        ("a FORMAT series whose type descriptor is 0x00", fmt(vec![0x11, dp, 0x00])),
        ("an Integer series stored as String", fmt(vec![0x11, dp, 0x17, b'x'])),
        ("a GT series stored as Int16", fmt(vec![0x11, gt, 0x12, 0x02, 0x00])),
        ("a Character series of length 0", fmt(vec![0x11, ch, 0x07])),
        ("a Character series starting with NUL", fmt(vec![0x11, ch, 0x17, 0x00])),
        ("a Character array series with an empty element", fmt(vec![0x11, ca, 0x37, b'a', b',', b','])),
        ("an INFO Integer vector containing the Int8 end-of-vector code", rec(site(1, &[0x11, ac, 0x21, 0x05, 0x81], 0), vec![])),
        ("an INFO Integer vector containing a reserved Int16 code", rec(site(1, &[0x11, ac, 0x22, 0x05, 0x00, 0x03, 0x80], 0), vec![])),
        ("an INFO Float vector containing the end-of-vector NaN", rec(site(1, &[0x11, af, 0x25, 0, 0, 0, 0, 0x02, 0x00, 0x80, 0x7f], 0), vec![])),
    ];
    let n = cases.len();
    let mut bad: Vec<&str> = Vec::new();
    for (what, data) in cases {
        let h = header.clone();
        let r = std::panic::catch_unwind(move || {
            let mut reader = noodles_bcf::io::Reader::from(&data[..]);
            let mut record = noodles_vcf::variant::RecordBuf::default();
            let _ = reader.read_record_buf(&h, &mut record);
        });
        if r.is_err() { bad.push(what); }
    }
    if !bad.is_empty() { return Err(format!("bcf Reader::read_record_buf PANICS on a record with: {}", bad.join("; "))); }
    Ok(format!("\"cases\":{n}"))
}

/// F36: bam lazy record with the CIGAR placeholder kSmN and a CG array of the wrong subtype (e.g. B:C with 5 elements):
/// Record::cigar().iter() hit unreachable!() because the raw CG bytes were taken for 32-bit operations whatever the subtype.
fn f36() -> Result<String, String> {
    let mut raw = b"BAM\x01".to_vec();
    let text = b"@HD\tVN:1.6\n@SQ\tSN:sq0\tLN:100000\n";
    raw.extend((text.len() as u32).to_le_bytes()); raw.extend(text);
    raw.extend(1u32.to_le_bytes()); raw.extend(4u32.to_le_bytes()); raw.extend(b"sq0\0"); raw.extend(100000u32.to_le_bytes());
    let mut bad = Vec::new();
    let mut n = 0;
    for (what, data) in [("CG:B:C with 5 elements", vec![b'C', b'G', b'B', b'C', 5, 0, 0, 0, 1, 2, 3, 4, 5]), ("CG:B:s with 3 elements", vec![b'C', b'G', b'B', b's', 3, 0, 0, 0, 1, 0, 2, 0, 3, 0]), ("CG:B:I with 1 element", vec![b'C', b'G', b'B', b'I', 1, 0, 0, 0, 0x40, 0, 0, 0])] {
        n += 1;
        let mut r = Vec::new();
        r.extend(0i32.to_le_bytes()); r.extend(0i32.to_le_bytes()); r.push(3); r.push(30); r.extend(4680u16.to_le_bytes());
        r.extend(2u16.to_le_bytes()); r.extend(0u16.to_le_bytes()); r.extend(4u32.to_le_bytes());
        r.extend((-1i32).to_le_bytes()); r.extend((-1i32).to_le_bytes()); r.extend(0i32.to_le_bytes());
        r.extend(b"r0\0"); r.extend(((4u32 << 4) | 4).to_le_bytes()); r.extend(((10u32 << 4) | 3).to_le_bytes());
        r.extend([0x11, 0x11]); r.extend([30, 30, 30, 30]); r.extend(&data);
        let mut file = raw.clone(); file.extend((r.len() as u32).to_le_bytes()); file.extend(r);
        let res = std::panic::catch_unwind(move || {
            use noodles_sam::alignment::Record as _;
            let mut reader = noodles_bam::io::Reader::from(&file[..]);
            let h = reader.read_header().unwrap();
            let mut record = noodles_bam::Record::default();
            if reader.read_record(&mut record).is_err() { return; }
            for op in record.cigar().iter() { let _ = op; }
            let _ = record.alignment_end(); let _ = noodles_sam::alignment::RecordBuf::try_from_alignment_record(&h, &record);
        });
        if res.is_err() { bad.push(what); }
    }
    if !bad.is_empty() { return Err(format!("bam::Record::cigar().iter() PANICS on a record with the kSmN placeholder and {}", bad.join("; "))); }
    Ok(format!("\"cases\":{n}"))
}

/// F37 (known finding, C07): a record without quality scores (QUAL *) written by the CRAM writer cannot be read back:
/// the record is flagged "quality scores stored as array" but no quality bytes are written.
fn f37() -> Result<String, String> {
    use noodles_sam as sam;
    use sam::alignment::io::Write as _;
    let header: sam::Header = "@HD\tVN:1.6\n@SQ\tSN:sq0\tLN:100\n".parse().map_err(|e| format!("{e}"))?;
    let repo = noodles_fasta::Repository::new(vec![noodles_fasta::Record::new(noodles_fasta::record::Definition::new("sq0", None), noodles_fasta::record::Sequence::from(vec![b'A'; 100]))]);
    let mut bad = Vec::new();
    for (what, body) in [("one mapped read, QUAL *", "r0\t0\tsq0\t5\t30\t4M\t*\t0\t0\tAAAA\t*\n"), ("mapped read with a mismatch, QUAL *", "r0\t0\tsq0\t5\t30\t4M\t*\t0\t0\tACGT\t*\n"), ("two reads, one with QUAL", "r0\t0\tsq0\t5\t30\t4M\t*\t0\t0\tACGT\t*\nr1\t0\tsq0\t6\t30\t4M\t*\t0\t0\tACGT\tIIII\n"), ("unmapped read, QUAL *", "r0\t4\t*\t0\t0\t*\t*\t0\t0\tACGT\t*\n"), ("mapped read 1M3M with a mismatch, QUAL *", "r0\t0\tsq0\t5\t30\t1M3M\t*\t0\t0\tCAAA\t*\n"), ("control: QUAL present", "r0\t0\tsq0\t5\t30\t4M\t*\t0\t0\tACGT\tIIII\n")] {
        let r = std::panic::catch_unwind(|| -> Result<(), String> {
            let mut rd = sam::io::Reader::new(body.as_bytes());
            let recs: Vec<_> = rd.record_bufs(&header).collect::<Result<_, _>>().map_err(|e| format!("sam: {e}"))?;
            let mut w = noodles_cram::io::writer::Builder::default().set_reference_sequence_repository(repo.clone()).build_from_writer(Vec::new());
            w.write_header(&header).map_err(|e| format!("write_header: {e}"))?;
            for r in &recs { w.write_alignment_record(&header, r).map_err(|e| format!("write: {e}"))?; }
            w.try_finish(&header).map_err(|e| format!("finish: {e}"))?;
            let data = w.get_ref().clone();
            let mut rd = noodles_cram::io::reader::Builder::default().set_reference_sequence_repository(repo.clone()).build_from_reader(&data[..]);
            let h2 = rd.read_header().map_err(|e| format!("read_header: {e}"))?;
            let mut n = 0;
            for (i, r) in rd.records(&h2).enumerate() {
                let r = r.map_err(|e| format!("read record {i}: {e}"))?; n += 1;
                let r = sam::alignment::RecordBuf::try_from_alignment_record(&h2, &r).map_err(|e| format!("convert: {e}"))?;
                if r.sequence() != recs[i].sequence() || r.quality_scores() != recs[i].quality_scores() || r.cigar() != recs[i].cigar() { return Err(format!("record {i} differs: seq {:?} qual {:?}", r.sequence(), r.quality_scores())); }
            }
            if n != recs.len() { return Err(format!("{n} records instead of {}", recs.len())); }
            Ok(())
        });
        match r { Err(_) => bad.push(format!("{what}: PANIC")), Ok(Err(e)) => bad.push(format!("{what}: {e}")), Ok(Ok(())) => {} }
    }
    if bad.is_empty() { Ok("\"cases\":6".into()) } else { Err(format!("CRAM write+read of records without quality scores fails: {}", bad.join("; "))) }
}

/// F38: every block of a written CRAM file must declare its true uncompressed size (C07: "declared raw sizes"); the
/// fqzcomp branch of the slice writer declared the COMPRESSED length.  The file is parsed here with an independent
/// minimal container/block walker (ITF8/LTF8 per CRAM 3.1 §2.3) and each fqzcomp block is decoded with the real codec.
fn f38() -> Result<String, String> {
    use noodles_sam as sam;
    use sam::alignment::io::Write as _;
    use noodles_cram::{codecs::Encoder, container::{block_content_encoder_map::Builder as MapBuilder, compression_header::data_series_encodings::DataSeries}};
    let header: sam::Header = "@HD\tVN:1.6\n@SQ\tSN:sq0\tLN:100\n".parse().map_err(|e| format!("{e}"))?;
    let repo = noodles_fasta::Repository::new(vec![noodles_fasta::Record::new(noodles_fasta::record::Definition::new("sq0", None), noodles_fasta::record::Sequence::from(vec![b'A'; 100]))]);
    let map = MapBuilder::default().set_data_series_encoder(DataSeries::QualityScores, Some(Encoder::Fqzcomp)).build();
    let mut w = noodles_cram::io::writer::Builder::default().set_reference_sequence_repository(repo).set_block_content_encoder_map(map).build_from_writer(Vec::new());
    w.write_header(&header).map_err(|e| format!("write_header: {e}"))?;
    let mut body = String::new();
    for i in 0..20 { body.push_str(&format!("r{i}\t0\tsq0\t{}\t30\t30M\t*\t0\t0\t{}\t{}\n", 5 + i, "A".repeat(30), "IIIIIHHHHHGGGGGFFFFFEEEEEDDDDD")); }
    let mut rd = sam::io::Reader::new(body.as_bytes());
    for r in rd.record_bufs(&header) { let r = r.map_err(|e| format!("sam: {e}"))?; w.write_alignment_record(&header, &r).map_err(|e| format!("write: {e}"))?; }
    w.try_finish(&header).map_err(|e| format!("finish: {e}"))?;
    let data = w.get_ref().clone();
    // ---- independent walker ----
    fn itf8(b: &[u8], p: &mut usize) -> i32 {
        let b0 = b[*p] as u32; *p += 1;
        let (n, mut v) = if b0 < 0x80 { (0, b0) } else if b0 < 0xc0 { (1, b0 & 0x3f) } else if b0 < 0xe0 { (2, b0 & 0x1f) } else if b0 < 0xf0 { (3, b0 & 0x0f) } else { (4, b0 & 0x0f) };
        for k in 0..n { let x = b[*p] as u32; *p += 1; v = if n == 4 && k == 3 { (v << 4) | (x & 0x0f) } else { (v << 8) | x }; }
        v as i32
    }
    fn ltf8(b: &[u8], p: &mut usize) -> i64 { let b0 = b[*p]; *p += 1; let n = b0.leading_ones() as usize; let mut v = if n >= 8 { 0 } else { (b0 as u64) & (0xffu64 >> (n + 1)) }; for _ in 0..n { v = (v << 8) | b[*p] as u64; *p += 1; } v as i64 }
    let mut p = 26usize; // file definition
    let mut checked = 0; let mut bad = Vec::new();
    while p + 4 <= data.len() {
        let len = i32::from_le_bytes(data[p..p + 4].try_into().unwrap()) as usize; p += 4;
        let _ref = itf8(&data, &mut p); let _s = itf8(&data, &mut p); let _span = itf8(&data, &mut p); let _n = itf8(&data, &mut p);
        let _rc = ltf8(&data, &mut p); let _bases = ltf8(&data, &mut p); let n_blocks = itf8(&data, &mut p);
        let n_lm = itf8(&data, &mut p); for _ in 0..n_lm { itf8(&data, &mut p); }
        p += 4; // crc32
        let end = p + len;
        for _ in 0..n_blocks {
            if p >= end { break; }
            let method = data[p]; let _ct = data[p + 1]; p += 2;
            let _id = itf8(&data, &mut p); let size = itf8(&data, &mut p) as usize; let raw = itf8(&data, &mut p) as usize;
            let payload = &data[p..p + size]; p += size + 4;
            if method == 7 {
                checked += 1;
                let dec = noodles_cram::codecs::verif_hooks::fqzcomp_decode(payload).map_err(|e| format!("fqzcomp decode: {e}"))?;
                if dec.len() != raw { bad.push(format!("fqzcomp block declares raw size {raw} but holds {} bytes ({} compressed)", dec.len(), size)); }
            }
        }
        p = end;
    }
    if checked == 0 { return Err("witness did not reach an fqzcomp block".into()); }
    if !bad.is_empty() { return Err(format!("CRAM writer declares a wrong uncompressed size: {}", bad.join("; "))); }
    Ok(format!("\"fqzcomp_blocks\":{checked}"))
}

/// F39: genotypes of different ploidy in one record (C10: "padded per-sample vectors of unequal length are preserved").
fn f39() -> Result<String, String> {
    use noodles_vcf as vcf;
    use vcf::variant::io::Write as _;
    let mut bad = Vec::new();
    let mut n = 0;
    for gts in [vec!["0/1/2", "0/1"], vec!["0/1", "0/1/2"], vec!["0|1|1|0", "1", "0/1"], vec!["0/1", "1/1"], vec!["0", "0/1", "./."]] {
        n += 1;
        let names: Vec<String> = (0..gts.len()).map(|i| format!("s{i}")).collect();
        let text = format!("##fileformat=VCFv4.3\n##FORMAT=<ID=GT,Number=1,Type=String,Description=\"g\">\n##contig=<ID=sq0,length=1000>\n#CHROM\tPOS\tID\tREF\tALT\tQUAL\tFILTER\tINFO\tFORMAT\t{}\nsq0\t10\t.\tA\tC,G\t.\t.\t.\tGT\t{}\n", names.join("\t"), gts.join("\t"));
        let r = std::panic::catch_unwind(|| -> Result<(), String> {
            let mut rd = vcf::io::Reader::new(text.as_bytes());
            let header = rd.read_header().map_err(|e| format!("vcf header: {e}"))?;
            let recs: Vec<_> = rd.record_bufs(&header).collect::<Result<_, _>>().map_err(|e| format!("vcf: {e}"))?;
            let mut w = noodles_bcf::io::Writer::from(Vec::new());
            w.write_header(&header).map_err(|e| format!("write_header: {e}"))?;
            for r in &recs { w.write_variant_record(&header, r).map_err(|e| format!("write: {e}"))?; }
            let data = w.get_ref().clone();
            let mut rd = noodles_bcf::io::Reader::from(&data[..]);
            let h2 = rd.read_header().map_err(|e| format!("bcf header: {e}"))?;
            let back: Vec<_> = rd.record_bufs(&h2).collect::<Result<_, _>>().map_err(|e| format!("bcf read: {e}"))?;
            if back.len() != 1 { return Err(format!("{} records", back.len())); }
            // compare through the VCF text rendering of the samples
            let render = |h: &vcf::Header, r: &vcf::variant::RecordBuf| -> Result<String, String> { let mut w = vcf::io::Writer::new(Vec::new()); w.write_variant_record(h, r).map_err(|e| format!("render: {e}"))?; Ok(String::from_utf8_lossy(w.get_ref()).to_string()) };
            let (a, b) = (render(&header, &recs[0])?, render(&h2, &back[0])?);
            if a != b { return Err(format!("read back {:?} instead of {:?}", b.trim_end().rsplit('\t').take(gts.len()).collect::<Vec<_>>(), a.trim_end().rsplit('\t').take(gts.len()).collect::<Vec<_>>())); }
            Ok(())
        });
        match r { Err(_) => bad.push(format!("GT {gts:?}: PANIC")), Ok(Err(e)) => bad.push(format!("GT {gts:?}: {e}")), Ok(Ok(())) => {} }
    }
    if !bad.is_empty() { return Err(format!("BCF write+read of genotypes of different ploidy: {}", bad.join("; "))); }
    Ok(format!("\"cases\":{n}"))
}

/// F46 / F53 / F54a / F54b / F55: the lazy text record readers (BED, FASTQ, SAM, VCF).
/// (a) an empty last column after a column ending in CR must not make an accessor of the returned record panic;
/// (b) the record must not depend on the capacity of the BufReader the text comes through (CR and LF, or the two bytes of a
///     multibyte character, arriving in different windows).
fn f46_text_lazy_readers() -> Result<String, String> {
    use std::io::BufReader;
    let mut bad = Vec::new();
    let mut n = 0u64;
    let mut case = |name: &str, f: &mut dyn FnMut() -> Result<(), String>| { n += 1; match std::panic::catch_unwind(std::panic::AssertUnwindSafe(|| f())) { Err(_) => bad.push(format!("{name}: PANICS")), Ok(Err(e)) => bad.push(format!("{name}: {e}")), Ok(Ok(())) => {} } };
    // (a) BED3..6
    case("BED3 'sq0\\t0\\t1\\r\\t\\n' (F46)", &mut || { let mut rd = noodles_bed::io::Reader::<3, _>::new(&b"sq0\t0\t1\r\t\n"[..]); let mut rec = noodles_bed::Record::<3>::default(); rd.read_record(&mut rec).map_err(|e| e.to_string())?; let _ = rec.reference_sequence_name(); let _ = rec.feature_start(); let _ = rec.feature_end(); let _ = rec.other_fields().iter().count(); Ok(()) });
    case("BED6 'sq0\\t0\\t1\\tn\\t0\\t+\\r\\t\\n' (F46)", &mut || { let mut rd = noodles_bed::io::Reader::<6, _>::new(&b"sq0\t0\t1\tn\t0\t+\r\t\n"[..]); let mut rec = noodles_bed::Record::<6>::default(); rd.read_record(&mut rec).map_err(|e| e.to_string())?; let _ = rec.name(); let _ = rec.score(); let _ = rec.strand(); let _ = rec.other_fields().iter().count(); Ok(()) });
    // (a) SAM
    for (i, line) in [&b"r\t4\t*\t0\t0\t*\t*\t0\t0\tAC\r\t\n"[..], &b"r\t4\t*\t0\t0\t*\t*\t0\t0\tAC\tII\r\t\n"[..]].iter().enumerate() {
        case(&format!("SAM lazy record, CR before an empty last column, case {i} (F54a)"), &mut || { let mut rd = noodles_sam::io::Reader::new(*line); let mut rec = noodles_sam::Record::default(); rd.read_record(&mut rec).map_err(|e| e.to_string())?; let _ = rec.name(); let _ = rec.flags(); let _ = rec.cigar().as_ref().len(); let _ = rec.sequence().as_ref().len(); let _ = rec.quality_scores().as_ref().len(); let _ = rec.data().iter().count(); Ok(()) });
    }
    // (a) VCF
    for (i, line) in [&b"sq0\t1\t.\tA\t.\t.\tPASS\r\t\n"[..], &b"sq0\t1\t.\tA\t.\t.\tPASS\t.\r\t\n"[..]].iter().enumerate() {
        case(&format!("VCF lazy record, CR before an empty last column, case {i} (F54b)"), &mut || { let mut rd = noodles_vcf::io::Reader::new(*line); let mut rec = noodles_vcf::Record::default(); rd.read_record(&mut rec).map_err(|e| e.to_string())?; let _ = rec.reference_sequence_name(); let _ = rec.filters().as_ref().len(); let _ = rec.info().as_ref().len(); let _ = rec.samples().as_ref().len(); Ok(()) });
    }
    // (b) every BufReader capacity 1..=40 must give the same record as the whole text in one window
    case("FASTQ CRLF record through BufReader capacities 1..=40 (F53)", &mut || {
        let src = b"@r1\r\nACGT\r\n+\r\nIIII\r\n@r2 d e\r\nAC\r\n+x\r\nII\r\n";
        let read = |cap: usize| -> Result<Vec<(Vec<u8>, Vec<u8>, Vec<u8>, Vec<u8>)>, String> { let mut rd = noodles_fastq::io::Reader::new(BufReader::with_capacity(cap, &src[..])); let mut rec = noodles_fastq::Record::default(); let mut v = Vec::new(); while rd.read_record(&mut rec).map_err(|e| e.to_string())? != 0 { v.push((rec.name().to_vec(), rec.description().to_vec(), rec.sequence().to_vec(), rec.quality_scores().to_vec())); } Ok(v) };
        let want = read(4096)?;
        if want.len() != 2 || want[0].0 != b"r1" || want[1].1 != b"d e" { return Err(format!("the whole-window read gives {want:?}")); }
        for cap in 1..=40 { let got = read(cap).map_err(|e| format!("capacity {cap}: {e}"))?; if got != want { return Err(format!("capacity {cap}: record names {:?} instead of {:?}", got.iter().map(|r| String::from_utf8_lossy(&r.0).into_owned()).collect::<Vec<_>>(), want.iter().map(|r| String::from_utf8_lossy(&r.0).into_owned()).collect::<Vec<_>>())); } }
        Ok(()) });
    case("VCF lazy record with multibyte characters through BufReader capacities 1..=40 (F55)", &mut || {
        let src = "sq0\t1\t.\tA\t.\t.\tPASS\tXS=\u{e9}t\u{e9};XT=\u{65e5}\u{672c}\tGT\t0/1\r\nsq0\t2\t\u{e9}\tA\t.\t.\tPASS\t.\n".as_bytes();
        let read = |cap: usize| -> Result<Vec<(String, String, String)>, String> { let mut rd = noodles_vcf::io::Reader::new(BufReader::with_capacity(cap, src)); let mut rec = noodles_vcf::Record::default(); let mut v = Vec::new(); while rd.read_record(&mut rec).map_err(|e| e.to_string())? != 0 { v.push((rec.ids().as_ref().to_string(), rec.info().as_ref().to_string(), rec.samples().as_ref().to_string())); } Ok(v) };
        let want = read(4096)?;
        if want.len() != 2 { return Err(format!("the whole-window read gives {want:?}")); }
        for cap in 1..=40 { let got = read(cap).map_err(|e| format!("capacity {cap}: read_record fails ({e}) although the whole-window read succeeds"))?; if got != want { return Err(format!("capacity {cap}: {got:?} instead of {want:?}")); } }
        Ok(()) });
    case("SAM lazy record through BufReader capacities 1..=40", &mut || {
        let src = b"r1\t4\t*\t0\t0\t*\t*\t0\t0\tACGT\tIIII\tXA:Z:x y\r\nr2\t4\t*\t0\t0\t*\t*\t0\t0\tAC\tII\r\n";
        let read = |cap: usize| -> Result<Vec<(Vec<u8>, Vec<u8>, Vec<u8>)>, String> { let mut rd = noodles_sam::io::Reader::new(BufReader::with_capacity(cap, &src[..])); let mut rec = noodles_sam::Record::default(); let mut v = Vec::new(); while rd.read_record(&mut rec).map_err(|e| e.to_string())? != 0 { v.push((rec.sequence().as_ref().to_vec(), rec.quality_scores().as_ref().to_vec(), rec.data().as_ref().to_vec())); } Ok(v) };
        let want = read(4096)?;
        if want.len() != 2 || want[1].1 != b"II" { return Err(format!("the whole-window read gives {want:?}")); }
        for cap in 1..=40 { let got = read(cap).map_err(|e| format!("capacity {cap}: {e}"))?; if got != want { return Err(format!("capacity {cap}: {got:?} instead of {want:?}")); } }
        Ok(()) });
    case("BED3 through BufReader capacities 1..=40", &mut || {
        let src = b"# c\r\nsq0\t0\t1\tx\t\r\nsq1\t5\t9\r\n";
        let read = |cap: usize| -> Result<Vec<(Vec<u8>, usize)>, String> { let mut rd = noodles_bed::io::Reader::<3, _>::new(BufReader::with_capacity(cap, &src[..])); let mut rec = noodles_bed::Record::<3>::default(); let mut v = Vec::new(); while rd.read_record(&mut rec).map_err(|e| e.to_string())? != 0 { v.push((rec.reference_sequence_name().to_vec(), rec.other_fields().iter().count())); } Ok(v) };
        let want = read(4096)?;
        if want != vec![(b"sq0".to_vec(), 2), (b"sq1".to_vec(), 0)] { return Err(format!("the whole-window read gives {want:?}")); }
        for cap in 1..=40 { let got = read(cap).map_err(|e| format!("capacity {cap}: {e}"))?; if got != want { return Err(format!("capacity {cap}: {got:?} instead of {want:?}")); } }
        Ok(()) });
    if bad.is_empty() { Ok(format!("\"cases\":{n}")) } else { Err(bad.join("; ")) }
}

/// F51: a GTF record line whose attributes do not parse must be reported as an error by record_bufs() / line_bufs(), not a panic.
fn f51() -> Result<String, String> {
    let src = b"chr1\tsrc\tgene\t10\t20\t.\t+\t.\tID \"\\\"; z \"after\";\n";
    let r = std::panic::catch_unwind(|| { let mut rd = noodles_gtf::io::Reader::new(&src[..]); let a: Vec<bool> = rd.record_bufs().map(|r| r.is_ok()).collect(); let mut rd = noodles_gtf::io::Reader::new(&src[..]); let b: Vec<bool> = rd.line_bufs().map(|r| r.is_ok()).collect(); (a, b) });
    match r { Err(_) => Err("gtf record_bufs() / line_bufs() PANIC on a record line whose attributes do not parse".into()), Ok(_) => Ok("\"cases\":2".into()) }
}

/// F59: the path-based index writers must report a failure of the final flush: writing to a full device cannot return Ok.
fn f59() -> Result<String, String> {
    if !std::path::Path::new("/dev/full").exists() { return Ok("\"cases\":0,\"note\":\"no /dev/full on this system\"".into()); }
    let mut bad = Vec::new();
    let tbx = noodles_tabix::Index::builder().set_header(Default::default()).build();
    if noodles_tabix::fs::write("/dev/full", &tbx).is_ok() { bad.push("tabix"); }
    if noodles_csi::fs::write("/dev/full", &noodles_csi::Index::default()).is_ok() { bad.push("csi"); }
    if noodles_bam::bai::fs::write("/dev/full", &noodles_bam::bai::Index::default()).is_ok() { bad.push("bai"); }
    if bgzf::gzi::fs::write("/dev/full", &bgzf::gzi::Index::from(vec![(1u64, 2u64)])).is_ok() { bad.push("gzi"); }
    let fai = noodles_fasta::fai::Index::from(vec![noodles_fasta::fai::Record::new("sq0", 4, 5, std::num::NonZero::new(4).unwrap(), std::num::NonZero::new(5).unwrap())]);
    if noodles_fasta::fai::fs::write("/dev/full", &fai).is_ok() { bad.push("fai"); }
    if noodles_cram::crai::fs::write("/dev/full", &[]).is_ok() { bad.push("crai"); }
    if bad.is_empty() { Ok("\"cases\":6".into()) } else { Err(format!("fs::write(\"/dev/full\", &index) returns Ok(()) for: {}", bad.join(", "))) }
}

/// F64: a CRAI index with more than one record, written by noodles' own writer, must read back equal through crai::io::Reader::read_index
/// (the free read_index appended every line to the same buffer, so the second record's fields were parsed out of two lines glued together).
fn f64_crai() -> Result<String, String> {
    use noodles_cram::crai;
    let p = |n: usize| noodles_core::Position::new(n);
    let mut cases = 0;
    for n in [0usize, 1, 2, 3, 50] {
        let index: Vec<crai::Record> = (0..n).map(|i| crai::Record::new(if i % 7 == 6 { None } else { Some(i / 3) }, if i % 7 == 6 { None } else { p(1 + i * 1000) }, if i % 7 == 6 { 0 } else { 500 + i }, 26 + (i as u64) * 4096, 100 + i as u64, 3000 + i as u64)).collect();
        let mut w = crai::io::Writer::new(Vec::new());
        w.write_index(&index).map_err(|e| format!("write_index: {e}"))?;
        let data = w.finish().map_err(|e| format!("finish: {e}"))?;
        let back = crai::io::Reader::new(&data[..]).read_index().map_err(|e| format!("crai::io::Reader::read_index fails on a {n}-record index written by crai::io::Writer: {e}"))?;
        if back != index { return Err(format!("a {n}-record CRAI index reads back different: {} records, first difference at {:?}", back.len(), index.iter().zip(back.iter()).position(|(a, b)| a != b))); }
        cases += 1;
    }
    Ok(format!("\"cases\":{cases}"))
}

/// F69 (known): a mapped record WITHOUT bases (SEQ *) whose CIGAR has M ops makes the CRAM writer panic (cigar_to_features indexes the empty
/// sequence) instead of writing it or refusing it with an error.
fn f69() -> Result<String, String> {
    use noodles_sam as sam; use sam::alignment::io::Write as _;
    let refseq: Vec<u8> = (0..2000).map(|i| b"ACGT"[(i * 7 + i / 3) % 4]).collect();
    let header: sam::Header = "@HD\tVN:1.6\n@SQ\tSN:sq0\tLN:2000\n".parse().map_err(|e| format!("header: {e}"))?;
    let repo = noodles_fasta::Repository::new(vec![noodles_fasta::Record::new(noodles_fasta::record::Definition::new("sq0", None), noodles_fasta::record::Sequence::from(refseq))]);
    let recs: Vec<sam::alignment::RecordBuf> = sam::io::Reader::new(&b"a\t0\tsq0\t10\t30\t8M\t*\t0\t0\t*\t*\n"[..]).record_bufs(&header).collect::<Result<_, _>>().map_err(|e| format!("sam: {e}"))?;
    std::panic::set_hook(Box::new(|_| {}));
    let r = std::panic::catch_unwind(std::panic::AssertUnwindSafe(|| -> std::io::Result<()> {
        let mut w = noodles_cram::io::writer::Builder::default().set_reference_sequence_repository(repo.clone()).build_from_writer(Vec::new());
        w.write_header(&header)?; for r in &recs { w.write_alignment_record(&header, r)?; } w.try_finish(&header) }));
    let _ = std::panic::take_hook();
    match r { Err(_) => Err("the CRAM writer PANICS on a mapped record without bases (SEQ *) whose CIGAR has M ops".into()), Ok(_) => Ok("\"cases\":1".into()) }
}

/// F75: a VCF sample column whose GT holds a multi-byte character must be an error (or skipped), never a panic, through the lazy record's
/// genotype iterator (next_allele split the string at a CHARACTER index used as a byte index).
fn f75() -> Result<String, String> {
    use noodles_vcf as vcf;
    use vcf::variant::record::samples::series::Value;
    use vcf::variant::record::samples::Series as _;
    use vcf::variant::record::Samples as _;
    let hdr = "##fileformat=VCFv4.3\n##FORMAT=<ID=GT,Number=1,Type=String,Description=\"x\">\n##contig=<ID=sq0,length=1000>\n#CHROM\tPOS\tID\tREF\tALT\tQUAL\tFILTER\tINFO\tFORMAT\ts0\ts1\n";
    let mut cases = 0;
    std::panic::set_hook(Box::new(|_| {}));
    let mut bad = Vec::new();
    for gt in ["\u{e9}|1", "0|\u{e9}", "\u{e9}", "1/\u{20ac}/0", "|\u{e9}|1", "\u{e9}\u{e9}|\u{e9}", "0\u{e9}|1"] {
        let text = format!("{hdr}sq0\t10\t.\tA\tC\t.\t.\t.\tGT\t{gt}\t0/1\n");
        cases += 1;
        let r = std::panic::catch_unwind(|| -> Result<(), String> {
            let mut rd = vcf::io::Reader::new(text.as_bytes());
            let h = rd.read_header().map_err(|e| format!("header: {e}"))?;
            let mut rec = vcf::Record::default();
            if rd.read_record(&mut rec).map_err(|e| format!("read_record: {e}"))? == 0 { return Err("no record".into()); }
            let samples = rec.samples();
            if let Some(series) = samples.select("GT") { for v in series.iter(&h) { if let Ok(Some(Value::Genotype(g))) = v { let _ = g.iter().map(|a| a.is_ok()).collect::<Vec<_>>(); } } }
            for s in samples.iter() { for f in s.iter(&h) { if let Ok((_, Some(Value::Genotype(g)))) = f { let _ = g.iter().count(); } } }
            let _ = vcf::variant::RecordBuf::try_from_variant_record(&h, &rec);
            Ok(()) });
        match r { Err(_) => bad.push(format!("{gt:?}")), Ok(Err(e)) => return Err(e), Ok(Ok(())) => {} }
    }
    let _ = std::panic::take_hook();
    if bad.is_empty() { Ok(format!("\"cases\":{cases}")) } else { Err(format!("the lazy VCF record's genotype iterator PANICS on GT values with a multi-byte character: {}", bad.join(", "))) }
}

/// F77 (known): single-byte substitutions in a CRAM file with uncompressed blocks, checksums re-sealed, that make the reconstruction of a
/// record's bases panic (the lazy sequence iterator returns bytes and has no way to report a feature position or reference range that does
/// not fit).  Positions found by bounded-file-mutations (thorough); replayed here so that the finding shows in every run.
fn f77() -> Result<String, String> {
    static LOC: std::sync::Mutex<String> = std::sync::Mutex::new(String::new());
    // the seed file is EMBEDDED: the writer's output is not byte-stable across processes (hash-map order of the tag dictionary)
    let hexs = include_str!("f77_seed.hex").trim();
    let seed: Vec<u8> = (0..hexs.len() / 2).map(|i| u8::from_str_radix(&hexs[2 * i..2 * i + 2], 16).unwrap()).collect();
    let regions = crate::hostile::cram_sealed_regions_pub(&seed);
    if std::panic::catch_unwind(|| crate::hostile::run_cram_pub(&seed)).is_err() { return Err("UNDECIDED: the embedded seed file itself makes the reader panic".into()); }
    std::panic::set_hook(Box::new(|info| { if let Some(l) = info.location() { let f = l.file(); let f = match f.find("/noodles-") { Some(i) => &f[i + 1..], None => f }; *LOC.lock().unwrap() = format!("{}:{}", f, l.line()); } }));
    let mut sites: Vec<String> = Vec::new();
    for (pos, byte) in [(803usize, 0u8), (1086, 0), (798, 255), (1312, 0), (1079, 127), (1417, 0)] {
        let mut x = seed.clone(); x[pos] = byte;
        let y = crate::hostile::cram_reseal(&seed, &regions, &x);
        if std::panic::catch_unwind(|| crate::hostile::run_cram_pub(&y)).is_err() { let l = LOC.lock().unwrap().clone(); if !sites.contains(&l) { sites.push(l); } }
    }
    let _ = std::panic::take_hook();
    sites.sort();
    if sites.is_empty() { Ok("\"cases\":6".into()) } else { Err(format!("reading a CRAM file with one substituted byte (checksum re-sealed) PANICS while the bases of a record are reconstructed, at: {}", sites.join(", "))) }
}

/// F78: an INFO float array holding one of BCF's RESERVED NaN bit patterns (a value BCF cannot represent) must be refused with an error by the
/// BCF writer, not a panic (todo!()).
fn f78() -> Result<String, String> {
    use noodles_vcf as vcf;
    use vcf::variant::io::Write as _;
    use vcf::variant::record_buf::info::field::{value::Array, Value};
    let hdr = "##fileformat=VCFv4.3\n##INFO=<ID=FA,Number=.,Type=Float,Description=\"x\">\n##contig=<ID=sq0,length=1000>\n#CHROM\tPOS\tID\tREF\tALT\tQUAL\tFILTER\tINFO\n";
    let header = vcf::io::Reader::new(hdr.as_bytes()).read_header().map_err(|e| format!("header: {e}"))?;
    std::panic::set_hook(Box::new(|_| {}));
    let mut bad = Vec::new(); let mut cases = 0;
    for bits in [0x7f80_0002u32, 0x7f80_0003, 0x7f80_0007, 0x7f80_0001] {
        cases += 1;
        let rec = vcf::variant::RecordBuf::builder().set_reference_sequence_name("sq0").set_variant_start(noodles_core::Position::MIN).set_reference_bases("A")
            .set_info([(String::from("FA"), Some(Value::Array(Array::Float(vec![Some(1.5), Some(f32::from_bits(bits))]))))].into_iter().collect()).build();
        let r = std::panic::catch_unwind(|| { let mut w = noodles_bcf::io::Writer::from(Vec::new()); w.write_header(&header).and_then(|_| w.write_variant_record(&header, &rec)).is_ok() });
        if r.is_err() { bad.push(format!("{bits:#x}")); }
    }
    let _ = std::panic::take_hook();
    if bad.is_empty() { Ok(format!("\"cases\":{cases}")) } else { Err(format!("the BCF writer PANICS on an INFO float array holding a reserved NaN bit pattern: {}", bad.join(", "))) }
}

/// F80 (known): a FASTA whose sequence line holds a '>' gives results that depend on how the source is chunked: the sequence reader and the
/// indexer test the FIRST byte of every buffer fill against '>' (the start of the next definition), not only the first byte of a line.
fn f80() -> Result<String, String> {
    use std::io::BufReader;
    let data: &[u8] = b">sq0\nAC>GT\n>sq1\nTT\n";
    let read = |cap: Option<usize>| -> Vec<String> { let collect = |it: &mut dyn Iterator<Item = std::io::Result<noodles_fasta::Record>>| -> Vec<String> { it.take(10).map(|r| match r { Ok(r) => format!("{}:{}", String::from_utf8_lossy(r.name()), String::from_utf8_lossy(r.sequence().as_ref())), Err(e) => format!("ERROR {e}") }).collect() };
        match cap { None => collect(&mut noodles_fasta::io::Reader::new(data).records()), Some(c) => collect(&mut noodles_fasta::io::Reader::new(BufReader::with_capacity(c, data)).records()) } };
    let index = |cap: Option<usize>| -> String { let run = |ix: &mut dyn FnMut() -> std::io::Result<Option<noodles_fasta::fai::Record>>| -> String { let mut v = Vec::new(); for _ in 0..10 { match ix() { Ok(Some(r)) => v.push(format!("{}:{}", String::from_utf8_lossy(r.name()), r.length())), Ok(None) => break, Err(e) => { v.push(format!("ERROR {e}")); break; } } } v.join(",") };
        match cap { None => { let mut i = noodles_fasta::io::Indexer::new(data); run(&mut || i.index_record().map_err(|e| std::io::Error::other(e.to_string()))) }, Some(c) => { let mut i = noodles_fasta::io::Indexer::new(BufReader::with_capacity(c, data)); run(&mut || i.index_record().map_err(|e| std::io::Error::other(e.to_string()))) } } };
    let (want_r, want_i) = (read(None), index(None));
    let mut bad = Vec::new();
    for cap in [1usize, 2, 3, 7, 8] { let (r, i) = (read(Some(cap)), index(Some(cap))); if r != want_r { bad.push(format!("records() through a BufReader of capacity {cap}: {r:?} instead of {want_r:?}")); } if i != want_i { bad.push(format!("the indexer through a BufReader of capacity {cap}: {i} instead of {want_i}")); } }
    if bad.is_empty() { Ok("\"cases\":10".into()) } else { Err(format!("a FASTA with '>' inside a sequence line (>sq0 / AC>GT) reads differently depending on the window size of the source: {}", bad[..bad.len().min(3)].join("; "))) }
}

/// F82 (known): the elements of a String array (INFO Number=.) are joined with ',' WITHOUT percent-encoding by the BCF writer, while the lazy
/// BCF reader percent-decodes every element (and the eager one does not): ["a,b", "c"] comes back as three values, ["a%3Bb"] as "a;b" lazily.
fn f82() -> Result<String, String> {
    use noodles_vcf as vcf;
    use vcf::variant::io::Write as _;
    use vcf::variant::record_buf::info::field::{value::Array, Value};
    let hdr = "##fileformat=VCFv4.3\n##INFO=<ID=SA,Number=.,Type=String,Description=\"x\">\n##contig=<ID=sq0,length=1000>\n#CHROM\tPOS\tID\tREF\tALT\tQUAL\tFILTER\tINFO\n";
    let header = vcf::io::Reader::new(hdr.as_bytes()).read_header().map_err(|e| format!("header: {e}"))?;
    let mut bad = Vec::new();
    for vals in [vec!["a,b", "c"], vec!["a%3Bb", "c"], vec!["x", "y"]] {
        let want: Vec<Option<String>> = vals.iter().map(|v| Some(v.to_string())).collect();
        let rec = vcf::variant::RecordBuf::builder().set_reference_sequence_name("sq0").set_variant_start(noodles_core::Position::MIN).set_reference_bases("A")
            .set_info([(String::from("SA"), Some(Value::Array(Array::String(want.clone()))))].into_iter().collect()).build();
        let mut w = noodles_bcf::io::Writer::from(Vec::new()); w.write_header(&header).map_err(|e| format!("write_header: {e}"))?; w.write_variant_record(&header, &rec).map_err(|e| format!("write: {e}"))?;
        let data = w.get_ref().clone();
        // eager
        let mut rd = noodles_bcf::io::Reader::from(&data[..]); let h = rd.read_header().map_err(|e| format!("read_header: {e}"))?;
        let mut back = vcf::variant::RecordBuf::default(); rd.read_record_buf(&h, &mut back).map_err(|e| format!("read_record_buf: {e}"))?;
        let eager = match back.info().get("SA") { Some(Some(Value::Array(Array::String(v)))) => v.clone(), o => vec![Some(format!("{o:?}"))] };
        // lazy
        let mut rd = noodles_bcf::io::Reader::from(&data[..]); let h = rd.read_header().map_err(|e| format!("read_header: {e}"))?;
        let mut lrec = noodles_bcf::Record::default(); rd.read_record(&mut lrec).map_err(|e| format!("read_record: {e}"))?;
        let lazy = match vcf::variant::RecordBuf::try_from_variant_record(&h, &lrec) { Ok(b) => match b.info().get("SA") { Some(Some(Value::Array(Array::String(v)))) => v.clone(), o => vec![Some(format!("{o:?}"))] }, Err(e) => vec![Some(format!("ERROR {e}"))] };
        if eager != want { bad.push(format!("{vals:?} reads back eagerly as {eager:?}")); }
        if lazy != want { bad.push(format!("{vals:?} reads back lazily as {lazy:?}")); }
    }
    if bad.is_empty() { Ok("\"cases\":3".into()) } else { Err(format!("a String array INFO value does not survive BCF when an element holds ',' or a percent sequence: {}", bad.join("; "))) }
}
