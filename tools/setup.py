#!/usr/bin/env python3
"""setup: offline sanity + warm the Kani / native build caches (everything is rebuilt by the checks anyway)."""
import os, subprocess, sys, shutil
V = os.path.dirname(os.path.dirname(os.path.abspath(__file__)))
sys.path.insert(0, os.path.join(V, 'tools'))
ok = True
for tool in ('verus', 'cargo', 'python3'):
    if not shutil.which(tool):
        print('missing tool', tool); ok = False
r = subprocess.run(['cargo', 'kani', '--version'], capture_output=True, text=True)
print('kani:', (r.stdout or r.stderr).strip()[:80])
os.makedirs(os.path.join(V, '.build'), exist_ok=True)
os.makedirs(os.path.join(V, 'evidence'), exist_ok=True)
os.makedirs(os.path.join(V, 'replays'), exist_ok=True)
if os.environ.get('VERIF_SETUP_WARM', '1') == '1':
    import check
    env = dict(os.environ); env['CARGO_NET_OFFLINE'] = 'true'
    env['RUSTFLAGS'] = '--cfg noodles_verif'
    # native crate
    if os.path.isdir(os.path.join(V, 'native', 'verif-native')):
        d = check.materialize_crate('native', 'verif-native')
        e2 = dict(env); e2['CARGO_TARGET_DIR'] = os.path.join(check.BUILD, 'target-native')
        r = subprocess.run(['cargo', 'build', '--offline', '--release', '-q'], cwd=d, env=e2)
        print('native build rc', r.returncode)
sys.exit(0 if ok else 1)
