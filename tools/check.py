#!/usr/bin/env python3
"""
check — decide one property of /verif/properties.jsonl on the CURRENT /repo tree.

  check <ID> [--tier quick|thorough] [--replay <file>] [--unit <name>] [--keep]

exit 0  every obligation generated from /repo discharged (known findings are printed, not alarms)
exit 1  some obligation failed: a line `VIOLATION property=<ID> replay=<path> [no-failing-input-found]`
exit 2  undecided (lost anchor, unsupported construct, rustc error, rlimit, tool failure) — never an alarm

See DESIGN.md §4.
"""
import sys, os, json, re, subprocess, time, hashlib, shutil, argparse, concurrent.futures as cf

VERIF = os.path.dirname(os.path.dirname(os.path.abspath(__file__)))
sys.path.insert(0, os.path.join(VERIF, 'tools'))
import vextract
from vextract import ExtractError

REPO = os.environ.get('VERIF_REPO', '/repo')
BUILD = os.environ.get('VERIF_BUILD', os.path.join(VERIF, '.build'))
TIER = os.environ.get('VERIF_TIER', 'quick')
SEED = int(os.environ.get('VERIF_SEED', '0') or 0)
VERUS = shutil.which('verus') or 'verus'

VERIF_FAIL = re.compile(r'(not satisfied|assertion failed|possible arithmetic|possible division|possible bit shift|'
                        r'decreases not|termination|may fail to meet|cannot show|unreachable|'
                        r'failed this|cannot prove|might not|possible)', re.I)
UNDECIDED_MSG = re.compile(r'(rlimit|resource limit|timed out|timeout|not supported|unsupported|does not yet support|'
                           r'not yet supported|internal error|panicked)', re.I)

# ---------------------------------------------------------------------------------------------
def load_properties():
    props = {}
    for l in open(os.path.join(VERIF, 'properties.jsonl')):
        l = l.strip()
        if l:
            p = json.loads(l); props[p['id']] = p
    return props

def unit_files():
    d = os.path.join(VERIF, 'units')
    return sorted(os.path.join(d, f) for f in os.listdir(d) if f.endswith('.vrs'))

def unit_header(path):
    name = None; props = []; tier = 'quick'
    for l in open(path):
        s = l.strip()
        if s.startswith('//@ unit '): name = s[9:].strip()
        elif s.startswith('//@ properties '): props = s[15:].split()
        elif s.startswith('//@ tier '): tier = s[9:].strip()
    return name, props, tier

def load_known():
    p = os.path.join(VERIF, 'known_findings.jsonl')
    out = []
    if os.path.exists(p):
        for l in open(p):
            l = l.strip()
            if l and not l.startswith('#'):
                out.append(json.loads(l))
    return out

def known_match(kf, pid, ob):
    """ob: dict(engine, unit, function, kind, clause, site).  A known entry matches on every key it gives."""
    if kf.get('status') != 'known': return False
    if pid not in kf.get('properties', [kf.get('property')]): return False
    for k in ('engine', 'unit', 'function', 'kind', 'harness'):
        if k in kf and kf[k] != ob.get(k): return False
    if 'clause_contains' in kf and kf['clause_contains'] not in (ob.get('clause') or ''): return False
    if 'clause_startswith' in kf and not (ob.get('clause') or '').startswith(kf['clause_startswith']): return False
    if 'message_startswith' in kf and not (ob.get('message') or '').startswith(kf['message_startswith']): return False
    if 'site_contains' in kf and kf['site_contains'] not in (ob.get('site') or ''): return False
    return True

# ---------------------------------------------------------------------------------------------
# Verus units
# ---------------------------------------------------------------------------------------------
FN_RE = re.compile(r'^\s*(?:#\[[^\]]*\]\s*)*(?:pub(?:\([^)]*\))?\s+)?(?:(?:const|open|closed|broadcast|proof|spec|exec|uninterp|unsafe|extern\s+"C")\s+)*fn\s+([A-Za-z_][A-Za-z0-9_]*)')

_FN_SPANS = {}
def fn_spans(text):
    """[(start_line, end_line, name)] of every fn with a body in the generated file (brace matching on the masked text)"""
    key = id(text)
    if key in _FN_SPANS: return _FN_SPANS[key]
    mask = vextract.rust_mask(text)
    spans = []
    for m in re.finditer(r'\bfn\s+([A-Za-z_][A-Za-z0-9_]*)', mask):
        ob = vextract.find_at_depth0(mask, m.end(), '{;')
        if ob < 0 or mask[ob] != '{': continue
        try: cb = vextract.match_brace(mask, ob)
        except Exception: continue
        spans.append((text.count('\n', 0, m.start()) + 1, text.count('\n', 0, cb) + 1, m.group(1)))
    _FN_SPANS[key] = spans
    return spans

def enclosing_fn(lines, lno, text=None):
    if text is not None:
        best = None
        for a, b, name in fn_spans(text):
            if a <= lno <= b and (best is None or (b - a) < (best[1] - best[0])): best = (a, b, name)
        if best: return best[2]
    for k in range(min(lno, len(lines)) - 1, -1, -1):
        m = FN_RE.match(lines[k])
        if m: return m.group(1)
    return '?'

def origin_str(o):
    if o is None: return '?'
    if o['src'] == 'repo': return f"{o['file']}:{o['line']}"
    if o['src'] == 'tmpl': return f"{o['file']}:{o['line']}"
    return f"{o['file']}"

def run_verus(path, flags, seed=None, timeout=900):
    cmd = [VERUS, '--edition', '2024', path, '--output-json', '--time', '--multiple-errors', '20', '--error-format=json'] + flags
    if seed is not None:
        cmd += ['-V', f'smt-option=smt.random_seed={seed}'] if False else []
    t0 = time.time()
    try:
        p = subprocess.run(cmd, capture_output=True, text=True, timeout=timeout, cwd=os.path.dirname(path))
        rc = p.returncode; out = p.stdout; err = p.stderr
    except subprocess.TimeoutExpired as e:
        rc = -9; out = ''; err = 'verus timed out'
    return rc, out, err, time.time() - t0, cmd

def parse_verus(out, err):
    res = None
    try:
        res = json.loads(out)
    except Exception:
        pass
    diags = []
    for l in err.splitlines():
        l = l.strip()
        if l.startswith('{'):
            try:
                d = json.loads(l)
                if d.get('$message_type') == 'diagnostic': diags.append(d)
            except Exception:
                pass
    return res, diags

def classify_diag(d, unit, lines):
    """returns dict(status='violation'|'undecided'|'ignore', ...)"""
    lvl = d.get('level'); msg = d.get('message', '')
    if lvl not in ('error',):
        return {'status': 'ignore'}
    if msg.startswith('aborting due to'): return {'status': 'ignore'}
    spans = d.get('spans', [])
    prim = next((s for s in spans if s.get('is_primary')), None)
    sec = [s for s in spans if not s.get('is_primary') and s.get('label')]
    # the span that names the failed clause: labelled 'failed this postcondition' / 'failed precondition' (may be primary)
    clause_span = next((s for s in spans if s.get('label') and 'failed' in s['label']), None)
    if clause_span is not None:
        sec = [clause_span] + [s for s in sec if s is not clause_span]
    lm = unit.linemap
    def org(s):
        if s is None: return None
        if not s.get('file_name', '').endswith(os.path.basename(unit.out_path)): return {'src': 'vstd', 'file': s.get('file_name'), 'line': s.get('line_start')}
        ln = s['line_start']
        return lm[ln - 1] if 0 < ln <= len(lm) else None
    po = org(prim)
    so = org(sec[0]) if sec else None
    ours = [s for s in ([prim] if prim else []) + [x for x in spans if x is not prim] if s.get('file_name', '').endswith(os.path.basename(unit.out_path))]
    fn = enclosing_fn(lines, ours[0]['line_start'], unit.text) if ours else '?'
    if prim is not None and ours and not prim.get('file_name', '').endswith(os.path.basename(unit.out_path)):
        prim = ours[0]; po = org(prim)
    def text_of(s):
        if s is None: return ''
        if s.get('text'):
            t = s['text'][0]
            if s['line_start'] == s['line_end']:
                return t['text'][max(0, t['highlight_start'] - 1):max(0, t['highlight_end'] - 1)].strip()
            return ' '.join(x['text'].strip() for x in s['text'])[:400]
        return ''
    info = {'message': msg, 'function': fn, 'primary': po, 'secondary': so,
            'primary_text': text_of(prim), 'clause': text_of(sec[0]) if sec else text_of(prim),
            'rendered': d.get('rendered', '')}
    if d.get('code'):
        info['status'] = 'undecided'; info['reason'] = 'rustc error ' + str(d['code'].get('code')); return info
    if UNDECIDED_MSG.search(msg):
        info['status'] = 'undecided'; info['reason'] = msg; return info
    if VERIF_FAIL.search(msg):
        info['status'] = 'violation'
        m = msg.lower()
        if 'postcondition' in m: kind = 'ensures'
        elif 'precondition' in m: kind = 'requires'
        elif 'invariant' in m: kind = 'invariant'
        elif 'assertion' in m: kind = 'assert'
        elif 'overflow' in m: kind = 'overflow'
        elif 'division' in m: kind = 'div0'
        elif 'shift' in m: kind = 'shift'
        elif 'decreases' in m or 'termination' in m: kind = 'decreases'
        else: kind = 'other'
        info['kind'] = kind
        return info
    info['status'] = 'undecided'; info['reason'] = 'unclassified verus error: ' + msg
    return info

TRUST_RE = re.compile(r'\b(assume\s*\(|admit\s*\(|external_body|assume_specification|uninterp\b|external_fn_specification|external_type_specification|#\[verifier::external\])')

def scan_trusted(unit):
    out = []
    for k, line in enumerate(unit.text.split('\n')):
        m = TRUST_RE.search(line)
        if m and not line.strip().startswith('//'):
            o = unit.linemap[k] if k < len(unit.linemap) else None
            out.append({'what': m.group(1).strip(' ('), 'where': origin_str(o), 'text': line.strip()[:160]})
    return out

def _norm_contract(t):
    t = re.sub(r'//[^\n]*', '', t)
    t = re.sub(r'\s+', '', t)
    return t.replace(',ensures', 'ensures').rstrip(',')

def cross_check(tpath, refpath, fn):
    """None when the contract of external_body `fn` in tpath equals the //@ sig block of the item `fn` in refpath (modulo whitespace, comments,
    trailing commas); otherwise a short reason"""
    try:
        here = open(tpath).read(); ref = open(refpath).read()
    except OSError as e:
        return f'cannot be compared ({e}) with'
    m = re.search(r'fn ' + fn + r'\([^{]*?\)(?:\s*->\s*\(r: [^)]*(?:\([^)]*\)[^)]*)*\))?\s*(requires.*?|ensures.*?)\{\s*unimplemented!\(\)', here, re.S)
    if not m: return 'is not found next to a CROSS-CHECK line; compared with'
    k = re.search(r'^//@ item [^\n]*path="(?:[^"]* / )?fn ' + fn + r'"[^\n]*\n(?:(?!//@ sig)[^\n]*\n)*//@ sig\n((?:(?!//@)[^\n]*\n)*)', ref, re.M)
    if not k: return 'has no item with a //@ sig block in'
    a, b = _norm_contract(m.group(1)), _norm_contract(k.group(1))
    return None if a == b else 'differs from the contract proved in'

class UnitResult:
    pass

def verify_unit(tpath, tier):
    """assemble + verus.  returns UnitResult"""
    r = UnitResult()
    r.template = os.path.relpath(tpath, VERIF)
    r.name, r.props, r.tier = unit_header(tpath)
    r.failures = []; r.undecided = []; r.functions = []; r.canary = None
    r.wall = 0.0; r.smt_ms = 0; r.rewrites = []; r.items = []; r.trusted = []; r.cmd = ''
    try:
        u = vextract.assemble(tpath, REPO, VERIF)
    except ExtractError as e:
        r.undecided.append({'reason': f'extract: {e}'})
        return r
    except Exception as e:
        r.undecided.append({'reason': f'extract crashed: {e!r}'})
        return r
    # cross-unit contracts: a line `// CROSS-CHECK <template> <fn>` in a template says that the external_body fn <fn> of THIS template restates,
    # verbatim, the contract that <template> proves for the real <fn>; a restatement that drifted is undecided, never trusted
    for m in re.finditer(r'^// CROSS-CHECK (\S+) (\w+)\s*$', open(tpath).read(), re.M):
        why = cross_check(tpath, os.path.join(VERIF, m.group(1)), m.group(2))
        if why: r.undecided.append({'reason': f'cross-unit contract of {m.group(2)} restated in {r.template} {why} {m.group(1)}'}); return r
    os.makedirs(os.path.join(BUILD, 'verus'), exist_ok=True)
    out_path = os.path.join(BUILD, 'verus', r.name.replace('.', '_') + '.rs')
    open(out_path, 'w').write(u.text)
    u.out_path = out_path
    r.unit = u
    r.rewrites = u.log; r.items = u.items
    r.trusted = scan_trusted(u) + [{'what': 'declared', 'where': r.template, 'text': t} for t in u.trusted]
    flags = list(u.flags)
    rc, out, err, wall, cmd = run_verus(out_path, flags)
    r.wall = wall; r.cmd = ' '.join(cmd)
    res, diags = parse_verus(out, err)
    lines = u.text.split('\n')
    if res is None:
        r.undecided.append({'reason': 'verus produced no JSON result', 'stderr': err[-2000:]})
    else:
        vr = res.get('verification-results', {})
        r.verified = vr.get('verified', 0); r.errors = vr.get('errors', 0)
        smt = res.get('times-ms', {}).get('smt', {})
        r.smt_ms = smt.get('smt-run', 0)
        for mod in smt.get('smt-run-module-times', []):
            for fb in mod.get('function-breakdown', []):
                r.functions.append({'function': fb['function'], 'mode': fb.get('mode:', fb.get('mode')),
                                    'ms': fb.get('time'), 'rlimit': fb.get('rlimit'), 'success': fb.get('success')})
        if vr.get('encountered-vir-error'):
            r.undecided.append({'reason': 'verus VIR error (unsupported construct or ill-formed unit)'})
    for d in diags:
        c = classify_diag(d, u, lines)
        if c['status'] == 'violation': r.failures.append(c)
        elif c['status'] == 'undecided': r.undecided.append(c)
    if res is not None and not r.failures and not r.undecided:
        if rc != 0 or not res['verification-results'].get('success'):
            r.undecided.append({'reason': f'verus rc={rc} without classified diagnostics', 'stderr': err[-2000:]})
        exp = u.expect.get('verified')
        if exp is not None and int(exp) != r.verified:
            r.undecided.append({'reason': f'vacuity guard: expected {exp} verified functions, got {r.verified}'})
        if r.verified == 0:
            r.undecided.append({'reason': 'vacuity guard: zero verified functions'})
    # failing functions without a diagnostic (e.g. rlimit) -> undecided
    if res is not None:
        failing = {f['function'].split('::')[-1] for f in r.functions if not f['success']}
        seen = {c['function'] for c in r.failures} | {c.get('function') for c in r.undecided}
        for f in failing - seen:
            r.undecided.append({'reason': f'function {f} not verified and no diagnostic attributed', 'function': f})
    # canaries (contract mutations that MUST fail): quick = first, thorough = all
    r.canaries = []
    if not r.failures and not r.undecided and u.canaries:
        todo = u.canaries if tier == 'thorough' else u.canaries[:1]
        for spec, tline in todo:
            m = re.match(r'"((?:[^"\\]|\\.)*)"\s*=>\s*"((?:[^"\\]|\\.)*)"', spec)
            if not m:
                r.undecided.append({'reason': f'bad canary directive line {tline}'}); continue
            old = bytes(m.group(1), 'utf-8').decode('unicode_escape'); new = bytes(m.group(2), 'utf-8').decode('unicode_escape')
            if u.text.count(old) != 1:
                r.undecided.append({'reason': f'canary line {tline}: text occurs {u.text.count(old)} times'}); continue
            cpath = out_path[:-3] + f'_canary{tline}.rs'
            open(cpath, 'w').write(u.text.replace(old, new))
            rc2, out2, err2, wall2, _ = run_verus(cpath, flags)
            res2, diags2 = parse_verus(out2, err2)
            failed = res2 is not None and res2['verification-results'].get('errors', 0) > 0 and not res2['verification-results'].get('encountered-vir-error') \
                and not any(d.get('code') for d in diags2 if d.get('level') == 'error')
            r.canaries.append({'mutation': f'{old} => {new}', 'failed_as_required': bool(failed)})
            r.wall += wall2
            os.remove(cpath)
            if not failed:
                r.undecided.append({'reason': f'canary line {tline} did not fail: contracts may be vacuous'})
    return r

# ---------------------------------------------------------------------------------------------
# Kani harnesses (real crates, cfg noodles_verif hooks)
# ---------------------------------------------------------------------------------------------
def kani_registry():
    p = os.path.join(VERIF, 'kani', 'registry.json')
    return json.load(open(p)) if os.path.exists(p) else []

def ensure_fresh_targets():
    """cargo decides what to rebuild from file mtimes.  A source tree whose CONTENT changed while mtimes went back (a patch reverted with
    cp -p / rsync -a / tar) would leave the previous code compiled into the Kani and native harnesses.  So: hash the content of every
    Rust/Cargo file of the repository, and if it differs from the hash recorded at the last build, drop the compiled crates."""
    import fcntl
    os.makedirs(BUILD, exist_ok=True)
    h = hashlib.sha256()
    for root, dirs, files in os.walk(REPO):
        dirs[:] = sorted(d for d in dirs if d not in ('target', '.git'))
        for f in sorted(files):
            if f.endswith('.rs') or f in ('Cargo.toml', 'Cargo.lock'):
                fp = os.path.join(root, f)
                h.update(os.path.relpath(fp, REPO).encode()); h.update(b'\0')
                try: h.update(open(fp, 'rb').read())
                except OSError: pass
    digest = h.hexdigest()
    with open(os.path.join(BUILD, '.lock'), 'w') as lk:
        fcntl.flock(lk, fcntl.LOCK_EX)
        sp = os.path.join(BUILD, 'source.sha256')
        old = open(sp).read().strip() if os.path.exists(sp) else None
        if old != digest:
            if old is not None:
                for t in ('target-native', 'target-kani'):
                    shutil.rmtree(os.path.join(BUILD, t), ignore_errors=True)
            open(sp, 'w').write(digest)
    return digest

def materialize_crate(kind, crate):
    """copy /verif/<kind>/<crate> to BUILD/<kind>/<crate> with @REPO@ substituted + Cargo.lock from repo."""
    src = os.path.join(VERIF, kind, crate)
    dst = os.path.join(BUILD, kind, crate)
    os.makedirs(dst, exist_ok=True)
    for root, dirs, files in os.walk(src):
        rel = os.path.relpath(root, src)
        os.makedirs(os.path.join(dst, rel), exist_ok=True)
        for f in files:
            data = open(os.path.join(root, f)).read()
            if f.endswith('.in'):
                data = data.replace('@REPO@', REPO); f = f[:-3]
            tp = os.path.join(dst, rel, f)
            if not os.path.exists(tp) or open(tp).read() != data:
                open(tp, 'w').write(data)
    lock = os.path.join(REPO, 'Cargo.lock')
    if os.path.exists(lock) and not os.path.exists(os.path.join(dst, 'Cargo.lock')):
        shutil.copy(lock, os.path.join(dst, 'Cargo.lock'))
    return dst

def run_kani(crate, harnesses, timeout):
    """run a set of harnesses of one harness crate; returns dict harness -> result"""
    ensure_fresh_targets()
    dst = materialize_crate('kani', crate)
    env = dict(os.environ)
    env['CARGO_NET_OFFLINE'] = 'true'
    env['RUSTFLAGS'] = (env.get('RUSTFLAGS', '') + ' --cfg noodles_verif').strip()
    env['CARGO_TARGET_DIR'] = os.path.join(BUILD, 'target-kani')
    results = {}
    def one(h):
        cmd = ['cargo', 'kani', '-Z', 'stubbing', '-Z', 'function-contracts', '--harness', h['harness'], '--exact', '--output-format', 'terse']
        t0 = time.time()
        try:
            p = subprocess.run(cmd, cwd=dst, env=env, capture_output=True, text=True, timeout=h.get('timeout', timeout))
            out = p.stdout + p.stderr; rc = p.returncode
        except subprocess.TimeoutExpired as e:
            out = (e.stdout or b'').decode('utf-8', 'replace') if isinstance(e.stdout, bytes) else (e.stdout or '')
            out += '\nTIMEOUT'; rc = -9
        return h['harness'], rc, out, time.time() - t0, ' '.join(cmd)
    # build once serially (first call compiles); then parallel
    first = True
    with cf.ThreadPoolExecutor(max_workers=int(os.environ.get('VERIF_KANI_JOBS', '6'))) as ex:
        futs = []
        if harnesses:
            h0 = harnesses[0]
            r0 = one(h0)
            allr = [r0]
            futs = [ex.submit(one, h) for h in harnesses[1:]]
            allr += [f.result() for f in futs]
        else:
            allr = []
    for name, rc, out, wall, cmd in allr:
        st = 'undecided'; reason = ''
        if 'VERIFICATION:- SUCCESSFUL' in out and rc == 0:
            st = 'ok'
        elif 'VERIFICATION:- FAILED' in out:
            # unwinding assertion failures => undecided (bound too small), other => violation
            failed = re.findall(r'Failed Checks: (.*)', out)
            if failed and all('unwinding assertion' in f for f in failed):
                st = 'undecided'; reason = 'unwinding assertion failed (bound too small)'
            elif re.search(r'Failed Checks: .*(not supported|unsupported)', out, re.I) and all(re.search(r'not supported|unsupported|unwinding', f, re.I) for f in failed):
                st = 'undecided'; reason = 'unsupported construct reached'
            else:
                st = 'violation'; reason = '; '.join(failed[:5])
        else:
            if 'TIMEOUT' in out: reason = 'timeout'
            else:
                m = re.search(r'error(\[E\d+\])?: .*', out)
                reason = m.group(0) if m else f'rc={rc}'
        results[name] = {'status': st, 'reason': reason, 'wall': wall, 'cmd': cmd, 'out': out[-6000:]}
    return results, dst, env

def kani_playback(dst, env, harness, timeout=900):
    cmd = ['cargo', 'kani', '-Z', 'stubbing', '-Z', 'function-contracts', '-Z', 'concrete-playback', '--concrete-playback=print',
           '--harness', harness, '--exact', '--output-format', 'terse']
    try:
        p = subprocess.run(cmd, cwd=dst, env=env, capture_output=True, text=True, timeout=timeout)
        out = p.stdout + p.stderr
    except subprocess.TimeoutExpired:
        return None
    m = re.search(r'```\n(.*?)```', out, re.S)
    return m.group(1) if m else None

# ---------------------------------------------------------------------------------------------
# Native bounded stand-ins / replay (real crates compiled natively with hooks)
# ---------------------------------------------------------------------------------------------
def native_registry():
    p = os.path.join(VERIF, 'native', 'registry.json')
    return json.load(open(p)) if os.path.exists(p) else []

def run_native(entries, tier):
    if not entries: return {}
    ensure_fresh_targets()
    dst = materialize_crate('native', 'verif-native')
    env = dict(os.environ)
    env['CARGO_NET_OFFLINE'] = 'true'
    env['RUSTFLAGS'] = (env.get('RUSTFLAGS', '') + ' --cfg noodles_verif').strip()
    env['CARGO_TARGET_DIR'] = os.path.join(BUILD, 'target-native')
    t0 = time.time()
    b = subprocess.run(['cargo', 'build', '--offline', '--release', '-q'], cwd=dst, env=env, capture_output=True, text=True)
    results = {}
    if b.returncode != 0:
        for e in entries:
            results[e['name']] = {'status': 'undecided', 'reason': 'native build failed: ' + b.stderr[-1500:], 'wall': time.time() - t0}
        return results
    exe = os.path.join(env['CARGO_TARGET_DIR'], 'release', 'verif-native')
    def one(e):
        t1 = time.time()
        args = [exe, e['name'], '--tier', tier, '--seed', str(SEED)]
        try:
            p = subprocess.run(args, capture_output=True, text=True, timeout=e.get('timeout', 1800))
            out = p.stdout; rc = p.returncode; err = p.stderr
        except subprocess.TimeoutExpired:
            return e['name'], {'status': 'undecided', 'reason': 'timeout', 'wall': time.time() - t1}
        info = {}
        for l in out.splitlines():
            if l.startswith('RESULT '):
                try: info = json.loads(l[7:])
                except Exception: pass
        if rc == 0 and info.get('ok'):
            return e['name'], {'status': 'ok', 'info': info, 'wall': time.time() - t1, 'cmd': ' '.join(args)}
        if rc == 1 and info.get('ok') is False:
            return e['name'], {'status': 'violation', 'info': info, 'reason': info.get('witness', ''), 'wall': time.time() - t1, 'cmd': ' '.join(args), 'out': out[-3000:] + err[-3000:]}
        return e['name'], {'status': 'undecided', 'reason': f'rc={rc} ' + (err[-800:] or out[-800:]), 'wall': time.time() - t1}
    with cf.ThreadPoolExecutor(max_workers=8) as ex:
        for name, res in ex.map(one, entries):
            results[name] = res
    return results

# ---------------------------------------------------------------------------------------------
def main():
    ap = argparse.ArgumentParser()
    ap.add_argument('pid')
    ap.add_argument('--tier', default=TIER)
    ap.add_argument('--replay')
    ap.add_argument('--unit', help='only this unit (debug)')
    ap.add_argument('--no-kani', action='store_true')
    ap.add_argument('--no-native', action='store_true')
    ap.add_argument('--no-evidence', action='store_true')
    a = ap.parse_args()
    tier = a.tier if a.tier in ('quick', 'thorough') else 'quick'
    pid = a.pid
    props = load_properties()
    if pid not in props:
        print(f"unknown property {pid}", file=sys.stderr); sys.exit(2)
    t0 = time.time()
    known = load_known()

    if a.replay:
        rp = json.load(open(a.replay))
        print(json.dumps({k: rp.get(k) for k in ('property', 'obligation', 'engine', 'witness', 'no_failing_input_found')}, indent=1))
        print("re-running the check that produced it:")
        # fallthrough: rerun the whole property check

    # ---- Verus units
    units = []
    for tp in unit_files():
        name, ps, utier = unit_header(tp)
        if pid in ps and (a.unit is None or a.unit == name):
            if utier == 'thorough' and tier != 'thorough': continue
            units.append(tp)
    with cf.ThreadPoolExecutor(max_workers=8) as ex:
        uresults = list(ex.map(lambda tp: verify_unit(tp, tier), units))

    # ---- Kani
    kres = {}; kani_entries = []
    if not a.no_kani and a.unit is None:
        reg = [h for h in kani_registry() if pid in h['properties']]
        reg = [h for h in reg if tier == 'thorough' or h.get('tier', 'quick') == 'quick']
        kani_entries = reg
        bycrate = {}
        for h in reg: bycrate.setdefault(h['crate'], []).append(h)
        kani_ctx = {}
        for crate, hs in bycrate.items():
            res, dst, env = run_kani(crate, hs, timeout=1500)
            for h in hs:
                kres[h['harness']] = res.get(h['harness'], {'status': 'undecided', 'reason': 'no result'})
                kani_ctx[h['harness']] = (dst, env)
    # ---- native bounded
    nres = {}; native_entries = []
    if not a.no_native and a.unit is None:
        native_entries = [e for e in native_registry() if pid in e['properties'] and (tier == 'thorough' or e.get('tier', 'quick') == 'quick')]
        nres = run_native(native_entries, tier)

    # ---- collect
    violations = []; undecided = []; known_hits = []
    os.makedirs(os.path.join(VERIF, 'replays'), exist_ok=True)
    obligations = 0; discharged = 0; samples = []; fuc = []; trusted = []; rewrites = []
    bounded = []; smt_ms = 0; kani_s = 0.0
    per_unit = []
    known_only_fns = []
    for r in uresults:
        # functions whose only failing clauses are recorded known findings are reported separately, not counted
        fails_by_fn = {}
        for c in r.failures:
            ob0 = {'engine': 'verus', 'unit': r.name, 'function': c['function'], 'kind': c['kind'], 'clause': c['clause'],
                   'site': origin_str(c['primary'])}
            fails_by_fn.setdefault(c['function'], []).append(any(known_match(k, pid, ob0) for k in known))
        for f in r.functions:
            short = f['function'].split('::')[-1]
            if not f['success'] and short in fails_by_fn and all(fails_by_fn[short]):
                known_only_fns.append(f"{r.name}::{short}")
                continue
            obligations += 1
            if f['success']: discharged += 1
        smt_ms += r.smt_ms
        trusted += [f"{r.name}: {t['what']} @ {t['where']}: {t['text']}" for t in r.trusted]
        rewrites += r.rewrites
        for it in r.items:
            fuc.append({'unit': r.name, 'file': it['file'], 'item': it['path'], 'lines': it['lines'], 'under_contract': it['under_contract']})
        per_unit.append({'unit': r.name, 'template': r.template, 'functions_verified': sum(1 for f in r.functions if f['success']),
                         'functions_total': len(r.functions), 'wall_s': round(r.wall, 2), 'smt_ms': r.smt_ms,
                         'canaries': r.canaries if hasattr(r, 'canaries') else [], 'cmd': r.cmd,
                         'per_function': [{'fn': f['function'], 'mode': f['mode'], 'ms': f['ms'], 'rlimit': f['rlimit'], 'ok': f['success']} for f in r.functions]})
        for c in r.failures:
            ob = {'engine': 'verus', 'unit': r.name, 'function': c['function'], 'kind': c['kind'], 'clause': c['clause'],
                  'site': origin_str(c['primary']), 'clause_site': origin_str(c['secondary']) if c['secondary'] else origin_str(c['primary']),
                  'message': c['message'], 'rendered': c['rendered']}
            ob['id'] = f"{pid}.{r.name}.{c['function']}.{c['kind']}[{(c['clause'] or '')[:80]}]"
            kf = next((k for k in known if known_match(k, pid, ob)), None)
            if kf: known_hits.append((kf, ob))
            else: violations.append(ob)
        for c in r.undecided:
            undecided.append({'engine': 'verus', 'unit': r.name, **{k: v for k, v in c.items() if k in ('reason', 'function', 'message', 'stderr')},
                              'site': origin_str(c.get('primary')) if c.get('primary') else None})
    for h in kani_entries:
        res = kres[h['harness']]
        kani_s += res.get('wall', 0)
        if h.get('mode', 'complete') == 'complete':
            obligations += 1
            if res['status'] == 'ok': discharged += 1
        else:
            bounded.append({'engine': 'kani', 'harness': h['harness'], 'bound': h.get('bound'), 'status': res['status'], 'wall_s': round(res.get('wall', 0), 1)})
        ob = {'engine': 'kani', 'unit': h['crate'], 'harness': h['harness'], 'function': h.get('function', ''), 'kind': 'harness',
              'clause': h.get('desc', ''), 'site': h.get('site', ''), 'message': res.get('reason', '')}
        ob['id'] = f"{pid}.kani.{h['crate']}.{h['harness']}"
        if res['status'] == 'violation':
            kf = next((k for k in known if known_match(k, pid, ob)), None)
            if kf: known_hits.append((kf, ob))
            else:
                ob['kani_out'] = res.get('out', '')
                ob['_ctx'] = kani_ctx[h['harness']]
                violations.append(ob)
        elif res['status'] == 'undecided':
            undecided.append({'engine': 'kani', 'harness': h['harness'], 'reason': res.get('reason')})
    for e in native_entries:
        res = nres.get(e['name'], {'status': 'undecided', 'reason': 'no result'})
        bounded.append({'engine': 'native', 'name': e['name'], 'bound': e.get('bound'), 'status': res['status'],
                        'cases': (res.get('info') or {}).get('cases'), 'wall_s': round(res.get('wall', 0), 1)})
        ob = {'engine': 'native', 'unit': 'verif-native', 'harness': e['name'], 'function': e.get('function', ''), 'kind': 'bounded',
              'clause': e.get('desc', ''), 'site': '', 'message': str(res.get('reason', ''))}
        ob['id'] = f"{pid}.native.{e['name']}"
        if res['status'] == 'violation':
            fl = (res.get('info') or {}).get('failures')
            if fl:
                # one obligation per distinct kind of failure, matched against known findings one by one
                for ftxt in fl:
                    ob2 = dict(ob); ob2['message'] = ftxt; ob2['clause'] = ftxt
                    ob2['id'] = f"{pid}.native.{e['name']}[{ftxt.split(';')[0][:90]}]"
                    kf = next((k for k in known if known_match(k, pid, ob2)), None)
                    if kf: known_hits.append((kf, ob2))
                    else:
                        ob2['witness'] = ftxt; ob2['native_out'] = ftxt
                        violations.append(ob2)
            else:
                kf = next((k for k in known if known_match(k, pid, ob)), None)
                if kf: known_hits.append((kf, ob))
                else:
                    ob['witness'] = (res.get('info') or {}).get('witness')
                    ob['native_out'] = res.get('out', '')
                    violations.append(ob)
        elif res['status'] == 'undecided':
            undecided.append({'engine': 'native', 'harness': e['name'], 'reason': res.get('reason')})

    # ---- report
    for kf, ob in known_hits:
        print(f"KNOWN-FINDING: property={pid} {kf.get('id', '')} {kf.get('note', '')} [obligation {ob['id']}]")
    exitcode = 0
    for ob in violations:
        h = hashlib.sha1(ob['id'].encode()).hexdigest()[:10]
        rpath = os.path.join(VERIF, 'replays', f"{pid}-{h}.json")
        rep = {'property': pid, 'obligation': ob['id'], 'engine': ob['engine'], 'unit': ob.get('unit'), 'function': ob.get('function'),
               'kind': ob.get('kind'), 'clause': ob.get('clause'), 'site': ob.get('site'), 'clause_site': ob.get('clause_site'),
               'verifier_output': ob.get('rendered') or ob.get('kani_out') or ob.get('native_out') or ob.get('message'),
               'repo': REPO}
        nofail = True
        if ob['engine'] == 'kani':
            dst, env = ob.pop('_ctx')
            pb = kani_playback(dst, env, ob['harness'])
            if pb:
                rep['witness'] = {'kind': 'kani-concrete-playback', 'unit_test': pb,
                                  'how': 'the harness calls the real compiled noodles function through the cfg(noodles_verif) hook; '
                                         'the byte vectors are the values of each kani::any() in order; cargo kani playback runs it natively'}
                nofail = False
        elif ob['engine'] == 'native':
            if ob.get('witness'):
                rep['witness'] = {'kind': 'native-execution', 'input': ob['witness'], 'how': f"verif-native {ob['harness']} re-executes it on the real crate"}
                nofail = False
        rep['no_failing_input_found'] = nofail
        json.dump(rep, open(rpath, 'w'), indent=1)
        print(f"VIOLATION property={pid} replay={rpath}" + (" no-failing-input-found" if nofail else ""))
        print(f"  obligation: {ob['id']}\n  site: {ob.get('site')}  message: {ob.get('message')}")
        exitcode = 1
    if exitcode == 0 and undecided:
        exitcode = 2
    for ud in undecided:
        print(f"UNDECIDED property={pid} {json.dumps(ud)[:600]}", file=sys.stderr)
    if not units and not kani_entries and not native_entries:
        print(f"no check registered for {pid}", file=sys.stderr); exitcode = 2

    # samples: a few obligations written out
    for r in uresults:
        for f in r.functions[:3]:
            samples.append({'engine': 'verus', 'unit': r.name, 'obligation': f"all requires/ensures/invariants/safety conditions of {f['function']}",
                            'mode': f['mode'], 'discharged': f['success'], 'ms': f['ms'], 'rlimit': f['rlimit']})
    for h in kani_entries[:4]:
        samples.append({'engine': 'kani', 'harness': h['harness'], 'obligation': h.get('desc'), 'domain': h.get('domain'), 'mode': h.get('mode', 'complete'),
                        'discharged': kres[h['harness']]['status'] == 'ok'})
    wall = time.time() - t0
    ev = {
        'property_id': pid, 'tier': tier, 'seed': SEED, 'level': 'proof',
        'coverage': {
            'obligations': obligations, 'discharged': discharged,
            'obligation_unit': 'one per Verus function query (all its requires/ensures/invariants/decreases and implicit panic-freedom checks) + one per Kani complete harness; bounded stand-ins are listed under bounded and NOT counted',
            'checker_cmd': f"tools/check.py {pid} --tier {tier}  (per unit: verus --edition 2024 .build/verus/<unit>.rs --output-json --time --multiple-errors 20; per harness: cargo kani -Z stubbing -Z function-contracts --harness <h> --exact)",
            'trusted_base': sorted(set(trusted)) + [f"kani harness {h['harness']}: {h.get('assumes')}" for h in kani_entries if h.get('assumes')],
            'functions_under_contract': fuc,
            'units': per_unit,
            'kani': [{'harness': h['harness'], 'crate': h['crate'], 'mode': h.get('mode', 'complete'), 'domain': h.get('domain'), 'desc': h.get('desc'),
                      'status': kres[h['harness']]['status'], 'wall_s': round(kres[h['harness']].get('wall', 0), 1)} for h in kani_entries],
            'bounded': bounded,
            'rewrites_applied': rewrites,
            'solver_time_s': {'verus_smt': round(smt_ms / 1000.0, 2), 'kani_wall': round(kani_s, 1)},
            'known_findings_hit': [kf.get('id') for kf, _ in known_hits],
            'functions_with_known_finding_only': known_only_fns,
            'undecided': undecided[:20],
            'samples': samples[:12],
            'not_covered': props[pid].get('_not_covered', ''),
            'explanation': scope_text(pid),
        },
        'assumptions': scope_assumptions(pid),
        'wall_s': round(wall, 2),
        'violations': len(violations),
    }
    if not a.no_evidence and a.unit is None and not a.no_kani and not a.no_native:   # partial runs never overwrite the evidence
        os.makedirs(os.path.join(VERIF, 'evidence'), exist_ok=True)
        json.dump(ev, open(os.path.join(VERIF, 'evidence', f'{pid}.json'), 'w'), indent=1)
    print(f"{pid}: obligations={obligations} discharged={discharged} violations={len(violations)} known={len(known_hits)} undecided={len(undecided)} bounded={len(bounded)} wall={wall:.1f}s exit={exitcode}")
    sys.exit(exitcode)

def scope_json():
    p = os.path.join(VERIF, 'scope.json')
    return json.load(open(p)) if os.path.exists(p) else {}

def scope_text(pid):
    return scope_json().get(pid, {}).get('scope', '')

def scope_assumptions(pid):
    s = scope_json()
    return s.get('_common', {}).get('assumptions', []) + s.get(pid, {}).get('assumptions', [])

if __name__ == '__main__':
    main()
