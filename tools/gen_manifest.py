#!/usr/bin/env python3
"""generate MANIFEST.json from scope.json (+ hook commits of /repo)"""
import json, os, subprocess
V = os.path.dirname(os.path.dirname(os.path.abspath(__file__)))
scope = json.load(open(os.path.join(V, 'scope.json')))
props = [json.loads(l) for l in open(os.path.join(V, 'properties.jsonl')) if l.strip()]
hook_commits = []
try:
    out = subprocess.run(['git', '-C', '/repo', 'log', '--format=%H %s'], capture_output=True, text=True).stdout
    for l in out.splitlines():
        h, _, s = l.partition(' ')
        if s.startswith('verif hooks'): hook_commits.append(h)
except Exception:
    pass
checks = []; na = []
for p in props:
    pid = p['id']; s = scope.get(pid, {})
    if s.get('claimed'):
        checks.append({
            'property_id': pid,
            'quick_cmd': f'./check {pid} --tier quick',
            'thorough_cmd': f'./check {pid} --tier thorough',
            'evidence_file': f'/verif/evidence/{pid}.json',
            'replay_cmd_template': f'./check {pid} --replay {{path}}',
            'engine': 'contracts',
            'level_claimed': {'category': 'proof', 'text': s['scope'], 'design_ref': f'DESIGN.md §5 {pid}'},
            'level_note': '; '.join(scope['_common']['assumptions'] + s.get('assumptions', [])),
            'technique': s.get('technique', 'contract-based deductive verification (Verus/Kani)'),
        })
    else:
        na.append({'property_id': pid, 'reason': s.get('reason', 'not claimed')})
m = {
    'version': 1,
    'setup_cmd': 'python3 tools/setup.py',
    'hooks': {
        'guard': 'cfg(noodles_verif)',
        'enable': 'RUSTFLAGS="--cfg noodles_verif" (set by tools/check.py for cargo kani and the native crate); Verus units read source text and need no hooks',
        'baseline_off_cmd': 'cd /repo && cargo test --workspace --no-fail-fast --offline',
        'source_commits': hook_commits,
        'add_only': True,
    },
    'engines': [
        {'name': 'contracts', 'path': 'tools/check.py', 'serves_properties': [c['property_id'] for c in checks],
         'kind_free_text': 'Verus on functions re-extracted from /repo each run (tools/vextract.py + units/*.vrs) + Kani complete harnesses on the real crates (kani/) + native bounded stand-ins (native/, never counted as proved)'},
    ],
    'checks': checks,
    'not_applicable': na,
    'notes': 'exit 0 held / 1 VIOLATION / 2 undecided. known_findings.jsonl lists recorded genuine defects (KNOWN-FINDING lines). See DESIGN.md.',
}
json.dump(m, open(os.path.join(V, 'MANIFEST.json'), 'w'), indent=1)
print('checks:', [c['property_id'] for c in checks]); print('n/a:', [x['property_id'] for x in na])
