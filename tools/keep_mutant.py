#!/usr/bin/env python3
"""tools/keep_mutant.py <ID> <k> <PROPS comma-separated>: confirm the sub-agent's mutant (tools/confirm_mutant.sh), run the registered
checks for PROPS against a scratch copy with the patch, and keep it as /verif/seeded/<ID>-m<k>/ (patch.diff, demo, meta.json)."""
import sys, os, json, subprocess, shutil, re
ID, K, PROPS = sys.argv[1], sys.argv[2], sys.argv[3].split(',')
M = os.environ.get('WT_ROOT', '/tmp/wt') + f'/{ID}/mutants'
meta = json.load(open(f'{M}/m{K}_meta.json'))
c = subprocess.run(['/verif/tools/confirm_mutant.sh', ID, K], capture_output=True, text=True).stdout.strip().splitlines()[-1]
print(c)
confirmed = c.endswith('CONFIRMED') and 'NOT-CONFIRMED' not in c
r = subprocess.run(['/verif/tools/seedrun.sh', f'{M}/m{K}.diff'] + PROPS, capture_output=True, text=True).stdout
print(r)
res = {}
for p in PROPS:
    m = re.search(rf'^{p}: .*exit=(\d)', r, re.M)
    res[p] = {'0': 'missed (exit 0)', '1': 'VIOLATION (exit 1)', '2': 'undecided (exit 2)'}.get(m.group(1) if m else '?', 'no result')
obl = re.findall(r'^  obligation: (.*)$', r, re.M)
if not confirmed:
    print('NOT KEPT (not confirmed)'); sys.exit(1)
d = f'/verif/seeded/{ID}-m{K}'
os.makedirs(d, exist_ok=True)
shutil.copy(f'{M}/m{K}.diff', f'{d}/patch.diff'); shutil.copy(f'{M}/m{K}_demo.rs', f'{d}/demo.rs')
meta.update({'breaks_property': ID, 'confirmed_by': c, 'checks_run': res, 'failed_obligations': obl[:6],
             'how_to_rerun': f'tools/seedrun.sh seeded/{ID}-m{K}/patch.diff ' + ' '.join(PROPS)})
json.dump(meta, open(f'{d}/meta.json', 'w'), indent=1)
print('KEPT', d, res)
