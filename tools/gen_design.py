#!/usr/bin/env python3
"""assemble DESIGN.md from design/*.md + scope.json + known_findings.jsonl + seeded/*/meta.json"""
import json, os, glob
V = os.path.dirname(os.path.dirname(os.path.abspath(__file__)))
scope = json.load(open(f'{V}/scope.json'))
props = [json.loads(l) for l in open(f'{V}/properties.jsonl') if l.strip()]
out = [open(f'{V}/design/00_head.md').read().rstrip() + '\n']
out.append('## 5. Per-property decisions (as built)\n')
out.append('Generated from `scope.json` (the same text is the `level_claimed.text` / `level_note` of MANIFEST.json). '
           'Units: `units/*.vrs`; Kani harnesses: `kani/*/src/lib.rs` + `kani/registry.json`; native: `native/`.\n')
units = {}
for f in sorted(glob.glob(f'{V}/units/*.vrs')):
    name = None; ps = []
    for l in open(f):
        if l.startswith('//@ unit '): name = l[9:].strip()
        if l.startswith('//@ properties '): ps = l[15:].split()
    for p in ps: units.setdefault(p, []).append(name)
kani = {}
if os.path.exists(f'{V}/kani/registry.json'):
    for h in json.load(open(f'{V}/kani/registry.json')):
        for p in h['properties']: kani.setdefault(p, []).append(h['harness'].split('::')[-1])
for p in props:
    pid = p['id']; s = scope.get(pid, {})
    if s.get('claimed'):
        out.append(f"### {pid} — {p['title']} · **claimed (proof)**\n")
        out.append(f"*Technique:* {s.get('technique','')}.  \n*Verus units:* {', '.join(units.get(pid, [])) or '—'}.  *Kani harnesses:* {', '.join(kani.get(pid, [])) or '—'}.\n")
        out.append(s['scope'] + '\n')
        if s.get('assumptions'): out.append('*Assumes beyond §2/§2.1:* ' + '; '.join(s['assumptions']) + '.\n')
    else:
        out.append(f"### {pid} — {p['title']} · **not applicable**\n")
        out.append(s.get('reason', '') + '\n')
out.append(open(f'{V}/design/60_policy.md').read().rstrip() + '\n')
# findings
out.append('## 8. Genuine defects found on the pinned tree\n')
out.append('All were first seen as an obligation that could not be discharged (or, for F8/F15/F16, while writing the contract) and then '
           'reproduced with a concrete input on the real code. `fixed` = repaired by the named unguarded `fix:` commit in /repo (the existing suite, unedited, still passes: 2069 tests incl. doctests); '
           '`known` = recorded, reported as KNOWN-FINDING.\n')
out.append('| id | status | properties | what fails (witness) |\n|---|---|---|---|')
seen = set()
for l in open(f'{V}/known_findings.jsonl'):
    l = l.strip()
    if not l or l.startswith('#'): continue
    k = json.loads(l)
    if k['id'] in seen: continue
    seen.add(k['id'])
    txt = k.get('text') or k.get('note', '')
    st = f"fixed `{k['commit']}`" if k['status'] == 'fixed' else 'known'
    out.append(f"| {k['id']} | {st} | {', '.join(k.get('properties', []))} | {txt.replace('|', '/')} |")
out.append('')
out.append(open(f'{V}/design/80_more_findings.md').read().rstrip() + '\n' if os.path.exists(f'{V}/design/80_more_findings.md') else '')
# seeded
out.append('## 9. Seeded property-breaking changes and which check catches which\n')
out.append('Produced by fresh sub-agents that were given only the property text and a scratch worktree (nothing from /verif); each was '
           're-confirmed here (`tools/confirm_mutant.sh`: existing tests pass with the change, the demo fails with it and passes without) and kept under `seeded/<id>/` '
           '(patch.diff, demo.rs, meta.json). Results are those of the *registered quick checks* run against a scratch copy with the patch applied (`tools/reseed.py`). '
           '"missed" means the change lies outside the functions under contract for that property — each miss is an honest limit of the claimed scope, and several drove new units (see notes).\n')
out.append('| seeded change | file · what | result | failing obligation |\n|---|---|---|---|')
tot = caught = und = 0
for d in sorted(glob.glob(f'{V}/seeded/*/meta.json')):
    m = json.load(open(d)); sid = os.path.basename(os.path.dirname(d))
    res = m.get('checks_run', {})
    best = 'missed'
    for p, r in res.items():
        if 'VIOLATION' in r: best = 'caught by ' + p; break
        if 'undecided' in r: best = 'undecided (' + p + ')'
    tot += 1; caught += best.startswith('caught'); und += best.startswith('undecided')
    ob = (m.get('failed_obligations') or [''])[0]
    ob = ob.split('[')[0] if ob else ''
    out.append(f"| {sid} | {', '.join(m.get('files', []))[:70]} · {m.get('what','')[:160].replace('|','/')} | {best} | `{ob}` |")
out.append(f'\nTotals: {tot} confirmed changes, {caught} reported as VIOLATION, {und} undecided, {tot - caught - und} outside the claimed scope.\n')
if os.path.exists(f'{V}/design/85_seeded_notes.md'): out.append(open(f'{V}/design/85_seeded_notes.md').read().rstrip() + '\n')
out.append(open(f'{V}/design/90_appendix.md').read())
open(f'{V}/DESIGN.md', 'w').write('\n'.join(out))
print('DESIGN.md written', sum(len(x) for x in out))
