#!/bin/bash
# tools/confirm_mutant.sh <ID> <k>: in the sub-agent's scratch worktree /tmp/wt/<ID>: apply m<k>.diff, run the existing tests of the
# crate, run the demo (must FAIL), revert, run the demo again (must PASS).  Prints a one-line verdict.
ID=$1; K=$2; W=${WT_ROOT:-/tmp/wt}/$ID; M=$W/mutants
export CARGO_TARGET_DIR=$W/target CARGO_NET_OFFLINE=true
cd $W || exit 2
git checkout -q -- . 2>/dev/null
CRATE=$(python3 -c "import json;print(json.load(open('$M/m${K}_meta.json'))['crate'])")
FEAT=""; if [ "$CRATE" = "noodles-util" ]; then FEAT="--features alignment,variant"; fi
mkdir -p $W/$CRATE/tests; cp $M/m${K}_demo.rs $W/$CRATE/tests/m${K}_demo.rs
git apply $M/m$K.diff || { echo "CONFIRM $ID m$K: PATCH DOES NOT APPLY"; exit 1; }
(cargo test --offline -p $CRATE --lib $FEAT && cargo test --offline -p $CRATE --doc $FEAT) > /tmp/vt/confirm_${ID}_$K.existing.log 2>&1; EX=$?
cargo test --offline -p $CRATE --test m${K}_demo $FEAT > /tmp/vt/confirm_${ID}_$K.demo_mut.log 2>&1; DM=$?
git checkout -q -- .
cargo test --offline -p $CRATE --test m${K}_demo $FEAT > /tmp/vt/confirm_${ID}_$K.demo_clean.log 2>&1; DC=$?
rm -f $W/$CRATE/tests/m${K}_demo.rs; rmdir $W/$CRATE/tests 2>/dev/null
echo "CONFIRM $ID m$K crate=$CRATE existing_tests_rc=$EX demo_with_mutant_rc=$DM demo_clean_rc=$DC  => $([ $EX = 0 ] && [ $DM != 0 ] && [ $DC = 0 ] && echo CONFIRMED || echo NOT-CONFIRMED)"
