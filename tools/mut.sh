#!/bin/sh
# tools/mut.sh <property> <file-relative-to-repo> <sed-expression> [extra check args]
# apply a one-line mutation to a scratch source copy of /repo and run the check against it (never touches /repo)
[ "$MREPO_LOCKED" = 1 ] || { export MREPO_LOCKED=1; exec flock /tmp/mrepo.lock "$0" "$@"; }
set -e
P=$1; F=$2; E=$3; shift 3
rm -rf /tmp/mrepo; rsync -a --exclude target --exclude .git /repo/ /tmp/mrepo/
sed -i "$E" /tmp/mrepo/$F
if diff -q /repo/$F /tmp/mrepo/$F >/dev/null; then echo "MUTATION DID NOT APPLY"; exit 3; fi
diff /repo/$F /tmp/mrepo/$F | head -8
cd /verif && VERIF_REPO=/tmp/mrepo VERIF_BUILD=/tmp/vt/build ./check $P --no-evidence --no-kani --no-native "$@" 2>&1 | grep -v "^  site\|^  oblig" | cut -c1-400
