#!/bin/sh
# tools/mut.sh <property> <file-relative-to-repo> <sed-expression> [extra check args]
# apply a one-line mutation to a scratch source copy of /repo and run the check against it (never touches /repo)
M=${MREPO:-/tmp/mrepo}; B=${MBUILD:-/tmp/vt/build}; V=$(cd "$(dirname "$0")/.." && pwd)
[ "$MREPO_LOCKED" = 1 ] || { export MREPO_LOCKED=1; exec flock $M.lock "$0" "$@"; }
set -e
P=$1; F=$2; E=$3; shift 3
rm -rf $M; rsync -a --exclude target --exclude .git /repo/ $M/
sed -i "$E" $M/$F
if diff -q /repo/$F $M/$F >/dev/null; then echo "MUTATION DID NOT APPLY"; exit 3; fi
diff /repo/$F $M/$F | head -8
cd $V && VERIF_REPO=$M VERIF_BUILD=$B ./check $P --no-evidence --no-kani --no-native "$@" 2>&1 | grep -v "^  site\|^  oblig" | cut -c1-400
