#!/bin/sh
# tools/mut.sh <property> <file-relative-to-repo> <sed-expression> [extra check args]
# apply a one-line mutation to a scratch source copy of /repo and run the check against it (never touches /repo)
M=${MREPO:-/tmp/mrepo}; B=${MBUILD:-/tmp/vt/build}; V=$(cd "$(dirname "$0")/.." && pwd)
[ "$MREPO_LOCKED" = 1 ] || { export MREPO_LOCKED=1; exec flock $M.lock "$0" "$@"; }
set -e
P=$1; F=$2; E=$3; shift 3
# sync the scratch copy WITHOUT deleting it, and give every file whose content changed (e.g. the previous run's patch being reverted)
# a fresh mtime: cargo's fingerprints are mtime based, and rsync -a would restore the OLD mtime, leaving the previous change compiled in
rm -rf $B/target-native $B/target-kani   # never reuse compiled crates across different source states (cargo's mtime fingerprints are not reliable here)
mkdir -p $M; rsync -a --checksum --delete --exclude target --exclude .git --itemize-changes /repo/ $M/ | awk '$1 ~ /^>f/ {print $2}' | (cd $M && xargs -r touch)
sed -i "$E" $M/$F
if diff -q /repo/$F $M/$F >/dev/null; then echo "MUTATION DID NOT APPLY"; exit 3; fi
diff /repo/$F $M/$F | head -8
cd $V && VERIF_REPO=$M VERIF_BUILD=$B ./check $P --no-evidence --no-kani --no-native "$@" 2>&1 | grep -v "^  site\|^  oblig" | cut -c1-400
