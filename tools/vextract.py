#!/usr/bin/env python3
"""
vextract — assemble a Verus input file from a unit template and the CURRENT text of /repo.

A unit template (units/<name>.vrs) is a Verus source file with directive lines that start
with `//@`.  Everything that is not a directive is copied through (specs, lemmas, models).
Directives:

  //@ unit <name>
  //@ properties C01 C02 ...
  //@ flags <extra verus flags>
  //@ include <path relative to /verif>          textual include (models)
  //@ expect verified=<n>                         vacuity guard (number of verified fns)
  //@ item file=<repo-relative> path="<seg> / <seg>" [result=<name>] [vis=pub|none|keep]
  //@      [attrs="loop_isolation(false); ..."] [fields=pub] [keepattrs=1]
  //@   sig                        -> following plain lines are inserted before the body `{`
  //@   at body_start|body_end
  //@   before /regex/             -> inserted before the (single) line matching regex
  //@   after /regex/              -> inserted after the (single) line matching regex
  //@   loop <k> /header-regex/ [iter=<ghost name>]   -> loop spec inserted before loop body `{`
  //@   loop <k> body_start|body_end
  //@   replace <Rn> "literal" => "literal" [count=<n>]     (closed rewrite list, DESIGN §2)
  //@   sub <Rn> /regex/ => "replacement" [count=<n>]
  //@ end

The extracted text is the byte-for-byte text of the item in /repo apart from: dropped
doc comments/attributes (R0), visibility (R1), result naming (R2), injected ghost text (R3)
and the explicitly listed replace/sub rewrites.  Every application is logged.

Any failure to locate an item/anchor/loop is an ExtractError => the caller reports
"undecided" (exit 2), never a violation.
"""
import re, sys, os, json, shlex

class ExtractError(Exception):
    pass

# ----------------------------------------------------------------------------------------
# Rust lexing: build a mask where comments / string / char literal contents are blanked.
# ----------------------------------------------------------------------------------------
def rust_mask(src: str) -> str:
    n = len(src)
    out = list(src)
    i = 0
    def blank(a, b):
        for k in range(a, b):
            if out[k] != '\n':
                out[k] = ' '
    while i < n:
        c = src[i]
        if c == '/' and i + 1 < n and src[i+1] == '/':
            j = src.find('\n', i)
            if j < 0: j = n
            blank(i, j); i = j; continue
        if c == '/' and i + 1 < n and src[i+1] == '*':
            depth = 1; j = i + 2
            while j < n and depth > 0:
                if src.startswith('/*', j): depth += 1; j += 2
                elif src.startswith('*/', j): depth -= 1; j += 2
                else: j += 1
            blank(i, j); i = j; continue
        # raw strings r"..", r#".."#, br#".."#
        m = None
        if c in 'rb':
            m = re.compile(r'(?:br|r)(#*)"').match(src, i)
            if m and (i == 0 or not (src[i-1].isalnum() or src[i-1] == '_')):
                hashes = m.group(1)
                endtok = '"' + hashes
                j = src.find(endtok, m.end())
                if j < 0: j = n
                else: j += len(endtok)
                blank(i, j); i = j; continue
            m = None
        if c == '"' or (c == 'b' and i + 1 < n and src[i+1] == '"' and (i == 0 or not (src[i-1].isalnum() or src[i-1] == '_'))):
            j = i + (2 if c == 'b' else 1)
            while j < n and src[j] != '"':
                if src[j] == '\\': j += 2
                else: j += 1
            j = min(j + 1, n)
            blank(i, j); i = j; continue
        if c == "'" or (c == 'b' and i + 1 < n and src[i+1] == "'" and (i == 0 or not (src[i-1].isalnum() or src[i-1] == '_'))):
            k = i + (1 if c == 'b' else 0)
            # char literal?  '\..' or 'x'
            if k + 1 < n and src[k+1] == '\\':
                j = k + 2
                while j < n and src[j] != "'": j += 1
                j = min(j + 1, n)
                blank(i, j); i = j; continue
            if k + 2 < n and src[k+2] == "'" and src[k+1] != "'":
                blank(i, k + 3); i = k + 3; continue
            # lifetime / label
            i = k + 1; continue
        i += 1
    return ''.join(out)

def match_brace(mask: str, open_idx: int) -> int:
    """index of the `}` matching the `{` at open_idx (in mask)."""
    assert mask[open_idx] == '{'
    depth = 0
    for j in range(open_idx, len(mask)):
        ch = mask[j]
        if ch == '{': depth += 1
        elif ch == '}':
            depth -= 1
            if depth == 0: return j
    raise ExtractError("unbalanced braces")

def find_at_depth0(mask: str, start: int, chars: str, end: int = None) -> int:
    """first index >= start of any of `chars` outside (), [] nesting."""
    d = 0
    end = len(mask) if end is None else end
    for j in range(start, end):
        ch = mask[j]
        if d == 0 and ch in chars: return j
        if ch in '([': d += 1
        elif ch in ')]': d -= 1
    return -1

def line_start(s: str, i: int) -> int:
    j = s.rfind('\n', 0, i)
    return j + 1

def line_end(s: str, i: int) -> int:
    j = s.find('\n', i)
    return len(s) if j < 0 else j

# ----------------------------------------------------------------------------------------
# Text with per-character origin tracking
# ----------------------------------------------------------------------------------------
class Txt:
    """string + origin array.  origin >= 0: offset in repo file; origin < 0: -(template line) """
    __slots__ = ('s', 'o')
    def __init__(self, s, o):
        self.s = s; self.o = o
    @staticmethod
    def from_repo(src, a, b):
        return Txt(src[a:b], list(range(a, b)))
    @staticmethod
    def from_tmpl(text, tline):
        return Txt(text, [-tline] * len(text))
    def splice(self, a, b, other):
        self.s = self.s[:a] + other.s + self.s[b:]
        self.o[a:b] = other.o

# ----------------------------------------------------------------------------------------
# Locating items
# ----------------------------------------------------------------------------------------
ITEM_KW = ('fn', 'const', 'static', 'struct', 'enum', 'type', 'trait', 'mod', 'union')

def depth_at(mask, lo, idx):
    d = 0
    for j in range(lo, idx):
        ch = mask[j]
        if ch == '{': d += 1
        elif ch == '}': d -= 1
    return d

def find_in_range(src, mask, lo, hi, seg):
    """locate item described by seg within [lo,hi) at brace depth 0 relative to lo.
       returns (item_start, item_end, body_open or -1) — item_start at keyword line start (incl. qualifiers)."""
    seg = seg.strip()
    nth = None
    m_nth = re.match(r'(.*)#(\d+)$', seg)
    if m_nth:
        seg = m_nth.group(1).strip(); nth = int(m_nth.group(2))
    if seg.startswith('impl'):
        kind, name = 'impl', seg[4:].strip()
    else:
        kind, _, name = seg.partition(' ')
        name = name.strip()
    cands = []
    if kind == 'impl':
        for m in re.finditer(r'\bimpl\b', mask[lo:hi]):
            p = lo + m.start()
            if depth_at(mask, lo, p) != 0: continue
            ob = mask.find('{', p)
            if ob < 0 or ob >= hi: continue
            header = ' '.join(src[p+4:ob].split())
            cands.append((p, ob, header))
        want = ' '.join(name.split())
        exact = [c for c in cands if c[2] == want]
        if not exact:
            exact = [c for c in cands if want in c[2]]
        if len(exact) != 1:
            raise ExtractError(f"impl '{want}': {len(exact)} matches (headers: {[c[2] for c in cands]})")
        p, ob, _ = exact[0]
        cb = match_brace(mask, ob)
        return (line_start(src, p), cb + 1, ob)
    if kind not in ITEM_KW:
        raise ExtractError(f"unknown path segment kind '{kind}'")
    pat = re.compile(r'\b' + kind + r'\s+' + re.escape(name) + r'\b')
    for m in pat.finditer(mask[lo:hi]):
        p = lo + m.start()
        if depth_at(mask, lo, p) != 0: continue
        # `const fn name` must not match `const name`
        cands.append(p)
    if nth is not None:
        if nth < 1 or nth > len(cands): raise ExtractError(f"item '{seg}#{nth}': only {len(cands)} matches")
        cands = [cands[nth - 1]]
    if len(cands) != 1:
        raise ExtractError(f"item '{seg}': {len(cands)} matches")
    p = cands[0]
    ls = line_start(src, p)
    if kind in ('fn',):
        ob = find_at_depth0(mask, p, '{;', hi)
        if ob < 0: raise ExtractError(f"item '{seg}': no body")
        if mask[ob] == ';':
            return (ls, ob + 1, -1)
        cb = match_brace(mask, ob)
        return (ls, cb + 1, ob)
    if kind in ('struct', 'enum', 'trait', 'mod', 'union'):
        ob = find_at_depth0(mask, p, '{;', hi)
        if ob < 0: raise ExtractError(f"item '{seg}': no body")
        if mask[ob] == ';':
            return (ls, ob + 1, -1)
        cb = match_brace(mask, ob)
        return (ls, cb + 1, ob)
    # const / static / type : up to `;` at depth 0 (braces too)
    d = 0
    for j in range(p, hi):
        ch = mask[j]
        if ch in '([{': d += 1
        elif ch in ')]}': d -= 1
        elif ch == ';' and d == 0:
            return (ls, j + 1, -1)
    raise ExtractError(f"item '{seg}': unterminated")

DROP_ATTR = re.compile(r'#\[\s*(allow|doc|inline|must_use|deprecated|cfg_attr|expect|warn|deny|track_caller|cold)\b')
DROP_DERIVES = {'PartialOrd', 'Ord', 'Hash'}

def leading_attr_lines(src, item_start):
    """walk upwards over attribute / doc-comment / comment lines directly above item_start.
       returns start offset of that block."""
    pos = item_start
    while pos > 0:
        prev_ls = line_start(src, pos - 1)
        line = src[prev_ls:pos - 1].strip()
        if line.startswith('#[') or line.startswith('///') or line.startswith('//'):
            pos = prev_ls
        else:
            break
    return pos

def filter_attrs(block: str, keep_all=False, extra_drop=()):
    """R0: drop doc comments, lints; filter derives."""
    out = []
    log = []
    for line in block.splitlines():
        st = line.strip()
        if not st: continue
        if st.startswith('//'):
            continue
        if st.startswith('#['):
            if DROP_ATTR.match(st) and not keep_all:
                log.append(f"R0 drop attr {st}")
                continue
            m = re.match(r'#\[derive\((.*)\)\]$', st)
            if m:
                names = [x.strip() for x in m.group(1).split(',') if x.strip()]
                kept = [x for x in names if x not in DROP_DERIVES and x not in extra_drop]
                if kept != names:
                    log.append(f"R0 derive {names} -> {kept}")
                if kept:
                    out.append(line[:len(line) - len(line.lstrip())] + '#[derive(' + ', '.join(kept) + ')]')
                continue
            out.append(line)
    return out, log

def locate(src, mask, path):
    segs = [s for s in path.split(' / ')]
    lo, hi = 0, len(src)
    res = None
    for k, seg in enumerate(segs):
        res = find_in_range(src, mask, lo, hi, seg)
        if k < len(segs) - 1:
            if res[2] < 0: raise ExtractError(f"segment '{seg}' has no body")
            lo, hi = res[2] + 1, res[1] - 1
    return res

# ----------------------------------------------------------------------------------------
# Directive parsing
# ----------------------------------------------------------------------------------------
def parse_kv(rest):
    """parse key=value tokens (shell-like quoting)."""
    kv = {}
    for tok in shlex.split(rest):
        if '=' in tok:
            k, v = tok.split('=', 1)
            kv[k] = v
        else:
            kv[tok] = True
    return kv

class Sub:
    def __init__(self, kind, arg, tline):
        self.kind = kind; self.arg = arg; self.tline = tline; self.lines = []

def parse_lit(s, pos):
    """parse a "…" literal with \\n \\" \\\\ escapes starting at s[pos]=='"'; returns (value, endpos)"""
    assert s[pos] == '"'
    j = pos + 1; out = []
    while j < len(s):
        ch = s[j]
        if ch == '\\' and j + 1 < len(s):
            nx = s[j+1]
            out.append({'n': '\n', 't': '\t', '"': '"', '\\': '\\'}.get(nx, '\\' + nx)); j += 2; continue
        if ch == '"': return ''.join(out), j + 1
        out.append(ch); j += 1
    raise ExtractError("unterminated literal in directive: " + s)

def parse_regex(s, pos):
    assert s[pos] == '/'
    j = pos + 1; out = []
    while j < len(s):
        ch = s[j]
        if ch == '\\' and j + 1 < len(s) and s[j+1] == '/':
            out.append('/'); j += 2; continue
        if ch == '/': return ''.join(out), j + 1
        out.append(ch); j += 1
    raise ExtractError("unterminated regex in directive: " + s)

# ----------------------------------------------------------------------------------------
# Item transformation
# ----------------------------------------------------------------------------------------
LOOP_KW = re.compile(r'\b(while|for|loop)\b')

def find_loops(mask, body_open, body_close):
    loops = []
    for m in LOOP_KW.finditer(mask, body_open, body_close):
        p = m.start()
        if m.group(1) == 'for':
            q = m.end()
            while q < len(mask) and mask[q] == ' ': q += 1
            if q < len(mask) and mask[q] == '<': continue   # for<'a>
        ob = find_at_depth0(mask, m.end(), '{', body_close)
        if ob < 0: continue
        cb = match_brace(mask, ob)
        loops.append((p, ob, cb, m.group(1)))
    return loops

def auto_r10(t, log, label):
    """R10 (automatic): let-chains, which Verus does not support, are desugared as the Rust reference defines them.
       `if A && B {body}` (no else, A/B conjuncts of which at least one is a `let`)  ->  `if A { if B {body} }`
       `while A && B {body}`                                                         ->  `loop { if A { if B { body continue; } } break; }`
       Only chains that remain after the unit's explicit rewrites are touched; a chain with an `else` is left alone."""
    for _round in range(40):
        mask = rust_mask(t.s)
        done = True
        for m in re.finditer(r'\b(if|while)\s+let\b', mask):
            kw = m.group(1); start = m.start()
            if kw == 'if' and re.search(r'\belse\s*$', mask[:start]): continue
            ob = find_at_depth0(mask, m.end(), '{')
            if ob < 0: continue
            c0 = start + len(kw)
            # split the condition at `&&` outside (), [] and {}
            cuts = []; d = 0; j = c0
            while j < ob:
                ch = mask[j]
                if ch in '([{': d += 1
                elif ch in ')]}': d -= 1
                elif d == 0 and mask.startswith('&&', j): cuts.append(j); j += 1
                j += 1
            if not cuts: continue
            try: cb = match_brace(mask, ob)
            except ExtractError: continue
            if kw == 'if' and re.match(r'\s*else\b', mask[cb + 1:]): continue
            bounds = [c0] + [c + 2 for c in cuts]; ends = cuts + [ob]
            conj = [t.s[a:b].strip() for a, b in zip(bounds, ends)]
            o0 = t.o[start]
            def T(x): return Txt(x, [o0] * len(x))
            body = Txt(t.s[ob:cb + 1], t.o[ob:cb + 1])
            if kw == 'if':
                pre = ''.join(f"if {c} {{ " for c in conj[:-1]) + f"if {conj[-1]} "
                post = ' }' * (len(conj) - 1)
                new = Txt(pre + body.s + post, [o0] * len(pre) + body.o + [o0] * len(post))
            else:
                pre = 'loop { ' + ''.join(f"if {c} {{ " for c in conj[:-1]) + f"if {conj[-1]} "
                inner = Txt(body.s[:-1], body.o[:-1])
                post = ' continue; }' + ' }' * (len(conj) - 1) + ' break; }'
                new = Txt(pre + inner.s + post, [o0] * len(pre) + inner.o + [o0] * len(post))
            before = ' '.join(t.s[start:ob].split())
            t.splice(start, cb + 1, new)
            log.append({'rule': 'R10', 'item': label, 'before': before + ' {..}', 'after': ' '.join(pre.split()) + ' {..}' + (' (loop form)' if kw == 'while' else ''), 'count': 1})
            done = False
            break
        if done: return

def transform_item(t: Txt, opts, subs, log, label):
    """apply rewrites + injections to an extracted fn/struct/... text."""
    # ---- replace / sub (on current text) ----
    for sb in subs:
        if sb.kind == 'replace':
            rule, old, new, count = sb.arg
            cnt = t.s.count(old)
            if cnt != count:
                raise ExtractError(f"{label}: replace {rule} {old!r}: expected {count} occurrence(s), found {cnt}")
            pos = 0
            for _ in range(count):
                a = t.s.find(old, pos)
                t.splice(a, a + len(old), Txt(new, [t.o[a]] * len(new)))
                pos = a + len(new)
            log.append({'rule': rule, 'item': label, 'before': old, 'after': new, 'count': count})
        elif sb.kind == 'sub':
            rule, rx, new, count = sb.arg
            ms = list(re.finditer(rx, t.s, re.S))
            if (count == -1 and len(ms) <= 1) or count == -2:
                pass    # count=? : an optional ghost hint (R3) — applied if its anchor is there
            elif len(ms) != count:
                raise ExtractError(f"{label}: sub {rule} /{rx}/: expected {count} match(es), found {len(ms)}")
            for m in reversed(ms):
                rep = m.expand(new)
                t.splice(m.start(), m.end(), Txt(rep, [t.o[m.start()]] * len(rep)))
                log.append({'rule': rule, 'item': label, 'before': m.group(0), 'after': rep, 'count': 1})
    # R8 (automatic): closure parameter `|_|` -> `|_e|` (Verus accepts only identifier patterns; naming only)
    mask0 = rust_mask(t.s)
    hits = [m.start() for m in re.finditer(r'\|_\|', mask0)]
    for a in reversed(hits):
        t.splice(a, a + 3, Txt('|_e|', [t.o[a]] * 4))
    if hits:
        log.append({'rule': 'R8', 'item': label, 'before': '|_|', 'after': '|_e|', 'count': len(hits)})
    auto_r10(t, log, label)
    mask = rust_mask(t.s)
    inserts = []   # (offset, Txt, order)
    def ins(off, sb, pre='', post='\n'):
        text = pre + '\n'.join(sb.lines) + post
        inserts.append((off, Txt.from_tmpl(text, sb.tline), len(inserts)))

    is_fn = re.search(r'\bfn\b', mask) is not None and opts.get('_kind') == 'fn'
    body_open = body_close = -1
    if is_fn:
        fnpos = re.search(r'\bfn\b', mask).start()
        body_open = find_at_depth0(mask, fnpos, '{;')
        if body_open >= 0 and mask[body_open] == '{':
            body_close = match_brace(mask, body_open)
        else:
            body_open = -1
        # R2 result naming
        if opts.get('result'):
            sig_end = body_open if body_open >= 0 else len(mask)
            # params close paren
            po = mask.find('(', fnpos)
            d = 0; pc = -1
            for j in range(po, sig_end):
                if mask[j] == '(': d += 1
                elif mask[j] == ')':
                    d -= 1
                    if d == 0: pc = j; break
            arrow = mask.find('->', pc, sig_end)
            if arrow < 0:
                raise ExtractError(f"{label}: result= given but no return type")
            m = re.compile(r'\bwhere\b').search(mask, arrow, sig_end)
            rt_end = m.start() if m else sig_end
            rt_a = arrow + 2
            rt_text = t.s[rt_a:rt_end]
            stripped = rt_text.strip()
            lead = len(rt_text) - len(rt_text.lstrip())
            a = rt_a + lead; b = a + len(stripped)
            newt = f"({opts['result']}: {stripped})"
            inserts.append((b, Txt(')', [t.o[b-1]]), len(inserts)))
            inserts.append((a, Txt(f"({opts['result']}: ", [t.o[a]] * (len(opts['result']) + 3)), len(inserts)))
            log.append({'rule': 'R2', 'item': label, 'before': '-> ' + stripped, 'after': '-> ' + newt})
    loops = find_loops(mask, body_open, body_close) if body_open >= 0 else []

    for sb in subs:
        if sb.kind in ('replace', 'sub'): continue
        if sb.kind == 'sig':
            if body_open < 0: raise ExtractError(f"{label}: sig on item without body")
            # before `{`, on its own lines
            a = body_open
            # strip trailing space before '{'
            ins(a, sb, pre='\n', post='\n')
        elif sb.kind == 'at':
            if sb.arg == 'body_start':
                ins(body_open + 1, sb, pre='\n', post='')
            elif sb.arg == 'body_end':
                ins(body_close, sb, pre='\n', post='\n')
            else:
                raise ExtractError(f"{label}: unknown position {sb.arg}")
        elif sb.kind in ('before', 'after'):
            rx = sb.arg
            hits = []
            lo = body_open if body_open >= 0 else 0
            pos = line_start(t.s, lo)
            while pos < len(t.s):
                le = line_end(t.s, pos)
                if pos >= lo or le > lo:
                    if re.search(rx, mask[pos:le]) or re.search(rx, t.s[pos:le]):
                        hits.append((pos, le))
                pos = le + 1
            if len(hits) != 1:
                raise ExtractError(f"{label}: anchor /{rx}/ matched {len(hits)} lines (need exactly 1)")
            a, b = hits[0]
            if sb.kind == 'before':
                ins(a, sb, pre='', post='\n')
            else:
                ins(min(b + 1, len(t.s)), sb, pre='' if b < len(t.s) else '\n', post='\n')
        elif sb.kind == 'loop':
            k, what, hdr_rx, itname = sb.arg
            if k < 1:
                raise ExtractError(f"{label}: loop {k} not found ({len(loops)} loops)")
            if k > len(loops):
                # the loop the contract speaks about is gone (e.g. `while` turned into `if`): its invariant has nothing to attach
                # to, so it is dropped and the verifier decides the loop-free function against the same pre/postconditions
                log.append({'rule': 'R3', 'item': label, 'note': f'loop {k} not present ({len(loops)} loops): loop directive {what} skipped'})
                continue
            p, ob, cb, kw = loops[k-1]
            header = ' '.join(t.s[p:ob].split())
            if what == 'spec':
                if hdr_rx is not None and not re.search(hdr_rx, header):
                    raise ExtractError(f"{label}: loop {k} header changed: '{header}' !~ /{hdr_rx}/")
                if itname:
                    m = re.compile(r'\bin\b').search(mask, p, ob)
                    if not m: raise ExtractError(f"{label}: loop {k}: no `in` for iter=")
                    inserts.append((m.end(), Txt(f" {itname}:", [t.o[m.end()-1]] * (len(itname) + 2)), len(inserts)))
                    log.append({'rule': 'R3', 'item': label, 'note': f'ghost iterator name {itname} on loop {k}'})
                ins(ob, sb, pre='\n', post='\n')
            elif what == 'body_start':
                ins(ob + 1, sb, pre='\n', post='')
            elif what == 'body_end':
                ins(cb, sb, pre='\n', post='\n')
            elif what == 'after':
                ins(cb + 1, sb, pre='\n', post='\n')
            else:
                raise ExtractError(f"{label}: unknown loop position {what}")
    # apply inserts from the end
    inserts.sort(key=lambda x: (x[0], x[2]))
    for off, tx, _ in reversed(inserts):
        t.splice(off, off, tx)
    return t

def apply_vis(t: Txt, vis, label, log):
    if vis == 'keep' or vis is None:
        # R1 (automatic): a path-restricted visibility (`pub(super)`, `pub(in ..)`) has no meaning in the flattened unit file and is
        # written `pub(crate)`, so that a visibility-only edit of the repository does not make the unit undecidable
        m = re.match(r'(\s*)(pub\((?:super|in [^)]*)\)\s+)', t.s)
        if m:
            a = m.end(1); b = m.end(); new = 'pub(crate) '
            log.append({'rule': 'R1', 'item': label, 'before': t.s[a:b].strip(), 'after': 'pub(crate)'})
            t.splice(a, b, Txt(new, [t.o[a] if a < len(t.o) else 0] * len(new)))
        return
    m = re.match(r'(\s*)(pub(?:\([^)]*\))?\s+)?', t.s)
    a = m.end(1); b = m.end()
    old = t.s[a:b]
    new = 'pub ' if vis == 'pub' else ''
    if old != new:
        t.splice(a, b, Txt(new, [t.o[a] if a < len(t.o) else 0] * len(new)))
        log.append({'rule': 'R1', 'item': label, 'before': old.strip() or '(private)', 'after': new.strip() or '(none)'})

def fields_pub(t: Txt, label, log):
    mask = rust_mask(t.s)
    ob = find_at_depth0(mask, 0, '{(;')
    if ob < 0 or mask[ob] == ';': return
    if mask[ob] == '(':
        # tuple struct: each field at depth 1
        # find matching paren
        d = 0; pc = -1
        for j in range(ob, len(mask)):
            if mask[j] == '(': d += 1
            elif mask[j] == ')':
                d -= 1
                if d == 0: pc = j; break
        # split on commas at depth 1
        starts = [ob + 1]; d = 0
        for j in range(ob + 1, pc):
            ch = mask[j]
            if ch in '(<[': d += 1
            elif ch in ')>]': d -= 1
            elif ch == ',' and d == 0: starts.append(j + 1)
        for a in reversed(starts):
            m = re.compile(r'(\s*)(pub(?:\([^)]*\))?\s+)?').match(t.s, a)
            if t.s[m.end():pc].strip() == '': continue
            t.splice(m.end(1), m.end(), Txt('pub ', [t.o[a]] * 4))
        log.append({'rule': 'R1', 'item': label, 'note': 'tuple fields -> pub'})
        return
    cb = match_brace(mask, ob)
    # named fields: lines at depth 1
    pos = ob + 1
    edits = []
    d = 0
    j = pos
    field_re = re.compile(r'(\s*)(pub(?:\([^)]*\))?\s+)?([A-Za-z_][A-Za-z0-9_]*)\s*:')
    at_field_start = True
    while j < cb:
        ch = mask[j]
        if at_field_start and d == 0:
            m = field_re.match(mask, j)
            if m and m.end() <= cb:
                # skip attributes (#[...]) — handled since they start with '#', no match
                edits.append((m.end(1), m.end(2) if m.group(2) else m.end(1)))
                j = m.end(); at_field_start = False; continue
            if ch == '#':
                # attribute: skip to closing ]
                e = mask.find(']', j); j = e + 1; continue
            if not ch.isspace():
                at_field_start = False
        if ch in '(<[{': d += 1
        elif ch in ')>]}': d -= 1
        elif ch == ',' and d == 0: at_field_start = True
        j += 1
    for a, b in reversed(edits):
        t.splice(a, b, Txt('pub ', [t.o[a]] * 4))
    log.append({'rule': 'R1', 'item': label, 'note': f'{len(edits)} field(s) -> pub'})

# ----------------------------------------------------------------------------------------
# Assemble a unit
# ----------------------------------------------------------------------------------------
class Unit:
    def __init__(self):
        self.name = None; self.properties = []; self.flags = []; self.expect = {}
        self.text = ''; self.linemap = []      # per output line: origin dict
        self.log = []; self.items = []; self.trusted = []
        self.canaries = []

def assemble(template_path, repo_root, verif_root):
    u = Unit()
    # expand includes first: every template line keeps (file, line) as its origin
    tl_origin = [None]          # 1-based: index -> (relative file, line)
    tlines = []
    includes = []
    def expand(path, depth=0):
        if depth > 8: raise ExtractError("include depth")
        rel = os.path.relpath(path, verif_root)
        for k, ln in enumerate(open(path).read().split('\n')):
            st = ln.strip()
            if st.startswith('//@ include '):
                ip = os.path.join(verif_root, st[12:].strip())
                if not os.path.exists(ip): raise ExtractError(f"include {st[12:].strip()} not found")
                includes.append(st[12:].strip())
                expand(ip, depth + 1)
            else:
                tlines.append(ln); tl_origin.append((rel, k + 1))
    expand(template_path)
    out = Txt('', [])
    files = {}       # file -> (src, mask)
    file_ids = []    # index -> file
    out_f = []       # parallel: file id (or -1 template)
    def emit_tmpl(text, tline):
        out.s += text; out.o.extend([-tline] * len(text)); out_f.extend([-1] * len(text))
    i = 0
    n = len(tlines)
    while i < n:
        line = tlines[i]
        st = line.strip()
        if not st.startswith('//@'):
            emit_tmpl(line + '\n', i + 1); i += 1; continue
        d = st[3:].strip()
        word, _, rest = d.partition(' ')
        if word == 'unit': u.name = rest.strip()
        elif word == 'properties': u.properties = rest.split()
        elif word == 'flags': u.flags += rest.split()
        elif word == 'expect':
            u.expect.update(parse_kv(rest))
        elif word == 'canary':
            # //@ canary <fn> "old text" => "new text"   (a mutation of the TEMPLATE contract that must make verification fail)
            u.canaries.append((rest.strip(), i + 1))
        elif word == 'item':
            opts = parse_kv(rest)
            tline0 = i + 1
            subs = []
            i += 1
            cur = None
            while i < n:
                l2 = tlines[i]; s2 = l2.strip()
                if s2.startswith('//@'):
                    d2 = s2[3:].strip()
                    w2, _, r2 = d2.partition(' ')
                    if w2 == 'end': break
                    r2 = r2.strip()
                    if w2 == 'sig': cur = Sub('sig', None, i + 1); subs.append(cur)
                    elif w2 == 'at': cur = Sub('at', r2, i + 1); subs.append(cur)
                    elif w2 in ('before', 'after'):
                        rx, _e = parse_regex(r2, 0); cur = Sub(w2, rx, i + 1); subs.append(cur)
                    elif w2 == 'loop':
                        m = re.match(r'(\d+)\s*(.*)$', r2)
                        k = int(m.group(1)); rr = m.group(2).strip()
                        if rr.startswith('/'):
                            rx, e = parse_regex(rr, 0)
                            kv = parse_kv(rr[e:])
                            cur = Sub('loop', (k, 'spec', rx, kv.get('iter')), i + 1)
                        elif rr.startswith('body_start') or rr.startswith('body_end') or rr.startswith('after'):
                            cur = Sub('loop', (k, rr.split()[0], None, None), i + 1)
                        else:
                            kv = parse_kv(rr)
                            cur = Sub('loop', (k, 'spec', None, kv.get('iter')), i + 1)
                        subs.append(cur)
                    elif w2 == 'replace':
                        m = re.match(r'(\S+)\s+', r2)
                        rule = m.group(1); p = m.end()
                        old, p = parse_lit(r2, p)
                        m2 = re.compile(r'\s*=>\s*').match(r2, p)
                        new, p = parse_lit(r2, m2.end())
                        kv = parse_kv(r2[p:])
                        cur = Sub('replace', (rule, old, new, int(kv.get('count', 1))), i + 1); subs.append(cur); cur = None
                    elif w2 == 'sub':
                        m = re.match(r'(\S+)\s+', r2)
                        rule = m.group(1); p = m.end()
                        rx, p = parse_regex(r2, p)
                        m2 = re.compile(r'\s*=>\s*').match(r2, p)
                        new, p = parse_lit(r2, m2.end())
                        kv = parse_kv(r2[p:])
                        cur = Sub('sub', (rule, rx, new, -1 if kv.get('count') == '?' else (-2 if kv.get('count') == '*' else int(kv.get('count', 1)))), i + 1); subs.append(cur); cur = None
                    else:
                        raise ExtractError(f"{tl_origin[i+1]}: unknown item directive '{w2}'")
                else:
                    if cur is None:
                        if s2: raise ExtractError(f"{template_path}:{i+1}: text outside sub-directive")
                    else:
                        cur.lines.append(l2)
                i += 1
            if i >= n: raise ExtractError(f"{template_path}:{tline0}: item without //@ end")
            f = opts['file']
            if f not in files:
                fp = os.path.join(repo_root, f)
                if not os.path.exists(fp): raise ExtractError(f"repo file {f} not found")
                src = open(fp).read()
                files[f] = (src, rust_mask(src)); file_ids.append(f)
            fid = file_ids.index(f)
            src, mask = files[f]
            path = opts['path']
            label = f"{f}::{path}"
            a, b, ob = locate(src, mask, path)
            last_seg = path.split(' / ')[-1].strip()
            kind = last_seg.split(' ')[0]
            opts['_kind'] = kind
            # leading attributes
            ablock_start = leading_attr_lines(src, a)
            attrs, alog = filter_attrs(src[ablock_start:a], keep_all=bool(opts.get('keepattrs')), extra_drop=tuple(x.strip() for x in opts.get('dropderive', '').split(',') if x.strip()))
            for x in alog: u.log.append({'rule': 'R0', 'item': label, 'note': x})
            t = Txt.from_repo(src, a, b)
            apply_vis(t, opts.get('vis'), label, u.log)
            if opts.get('fields') == 'pub' and kind == 'struct':
                fields_pub(t, label, u.log)
            transform_item(t, opts, subs, u.log, label)
            pre = ''
            if opts.get('attrs'):
                for at in opts['attrs'].split(';'):
                    at = at.strip()
                    if at: pre += f"#[verifier::{at}]\n"
            for al in attrs: pre += al.strip() + '\n'
            emit_tmpl(pre, tline0)
            out.s += t.s; out.o.extend(t.o); out_f.extend([fid if o >= 0 else -1 for o in t.o])
            emit_tmpl('\n', tline0)
            # record item
            l0 = src.count('\n', 0, a) + 1; l1 = src.count('\n', 0, b) + 1
            u.items.append({'file': f, 'path': path, 'kind': kind, 'lines': [l0, l1],
                            'under_contract': any(s.kind == 'sig' for s in subs)})
        elif word == 'end':
            raise ExtractError(f"{template_path}:{i+1}: stray //@ end")
        elif word == 'trusted':
            u.trusted.append(rest.strip())
        else:
            raise ExtractError(f"{template_path}:{i+1}: unknown directive '{word}'")
        i += 1
    # line map
    u.text = out.s
    pos = 0
    linemap = []
    line_offsets = {}
    for f, (src, _m) in files.items():
        offs = [0]
        for m in re.finditer('\n', src): offs.append(m.end())
        line_offsets[f] = offs
    import bisect
    for ln in out.s.split('\n'):
        # origin of first non-space char
        k = pos
        end = pos + len(ln)
        while k < end and out.s[k].isspace(): k += 1
        if k >= end:
            linemap.append(None)
        else:
            fid = out_f[k]
            if fid >= 0:
                f = file_ids[fid]
                lno = bisect.bisect_right(line_offsets[f], out.o[k])
                linemap.append({'src': 'repo', 'file': f, 'line': lno})
            elif fid == -1:
                of, ol = tl_origin[-out.o[k]]
                linemap.append({'src': 'tmpl', 'file': of, 'line': ol})
        pos = end + 1
    u.linemap = linemap
    return u

if __name__ == '__main__':
    import argparse
    ap = argparse.ArgumentParser()
    ap.add_argument('template'); ap.add_argument('-o', '--out'); ap.add_argument('--repo', default='/repo')
    ap.add_argument('--verif', default=os.path.dirname(os.path.dirname(os.path.abspath(__file__))))
    a = ap.parse_args()
    try:
        u = assemble(a.template, a.repo, a.verif)
    except ExtractError as e:
        print("EXTRACT-ERROR:", e, file=sys.stderr); sys.exit(2)
    if a.out:
        open(a.out, 'w').write(u.text)
        json.dump({'linemap': u.linemap, 'log': u.log, 'items': u.items}, open(a.out + '.map.json', 'w'))
    else:
        sys.stdout.write(u.text)
