#!/usr/bin/env python3
"""tools/reseed.py [id-prefix]: re-run the registered quick checks against every kept seeded change (scratch copy of /repo with the
patch applied) and refresh seeded/<id>/meta.json (checks_run, failed_obligations)."""
import sys, os, json, glob, subprocess, re
V = os.path.dirname(os.path.dirname(os.path.abspath(__file__)))
pref = sys.argv[1] if len(sys.argv) > 1 else ''
for d in sorted(glob.glob(f'{V}/seeded/*/')):
    sid = os.path.basename(d.rstrip('/'))
    if not sid.startswith(pref): continue
    mp = d + 'meta.json'; m = json.load(open(mp))
    if m.get('obsolete'): print(sid, 'obsolete (skipped)'); continue
    props = list(m.get('checks_run', {}).keys()) or [m['breaks_property']]
    r = subprocess.run([f'{V}/tools/seedrun.sh', d + 'patch.diff'] + props, capture_output=True, text=True).stdout
    res = {}
    for p in props:
        mm = re.search(rf'^{p}: .*exit=(\d)', r, re.M)
        res[p] = {'0': 'missed (exit 0)', '1': 'VIOLATION (exit 1)', '2': 'undecided (exit 2)'}.get(mm.group(1) if mm else '?', 'no result')
    m['checks_run'] = res
    m['failed_obligations'] = re.findall(r'^  obligation: (.*)$', r, re.M)[:6]
    m['how_to_rerun'] = f'tools/seedrun.sh /verif/seeded/{sid}/patch.diff ' + ' '.join(props)
    json.dump(m, open(mp, 'w'), indent=1)
    print(sid, res, flush=True)
