#!/bin/bash
# tools/seedrun.sh <patch.diff> <PROP> [PROP...]: run the registered quick checks for PROPs against a scratch copy of /repo with the patch applied
[ "$MREPO_LOCKED" = 1 ] || { export MREPO_LOCKED=1; exec flock /tmp/mrepo.lock "$0" "$@"; }
PATCH=$1; shift
rm -rf /tmp/mrepo; rsync -a --exclude target --exclude .git /repo/ /tmp/mrepo/
(cd /tmp/mrepo && git apply --unsafe-paths --directory=/tmp/mrepo $PATCH 2>/dev/null || patch -p1 -s < $PATCH) || { echo "PATCH FAILED"; exit 3; }
for P in "$@"; do
  cd /verif && VERIF_REPO=/tmp/mrepo VERIF_BUILD=/tmp/vt/build ./check $P --no-evidence 2>&1 | grep -E "^VIOLATION|^  obligation|^KNOWN|^UNDECIDED|^C[0-9]+:" | cut -c1-260
done
