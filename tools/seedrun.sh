#!/bin/bash
# tools/seedrun.sh <patch.diff> <PROP> [PROP...]: run the registered quick checks for PROPs against a scratch copy of /repo with the patch applied
M=${MREPO:-/tmp/mrepo}; B=${MBUILD:-/tmp/vt/build}; V=$(cd "$(dirname "$0")/.." && pwd)
[ "$MREPO_LOCKED" = 1 ] || { export MREPO_LOCKED=1; exec flock $M.lock "$0" "$@"; }
PATCH=$1; shift
# sync the scratch copy WITHOUT deleting it, and give every file whose content changed (e.g. the previous run's patch being reverted)
# a fresh mtime: cargo's fingerprints are mtime based, and rsync -a would restore the OLD mtime, leaving the previous change compiled in
rm -rf $B/target-native $B/target-kani   # never reuse compiled crates across different source states (cargo's mtime fingerprints are not reliable here)
mkdir -p $M; rsync -a --checksum --delete --exclude target --exclude .git --itemize-changes /repo/ $M/ | awk '$1 ~ /^>f/ {print $2}' | (cd $M && xargs -r touch)
(cd $M && git apply --unsafe-paths --directory=$M $PATCH 2>/dev/null || patch -p1 -s < $PATCH) || { echo "PATCH FAILED"; exit 3; }
for P in "$@"; do
  cd $V && VERIF_REPO=$M VERIF_BUILD=$B ./check $P --no-evidence 2>&1 | grep -E "^VIOLATION|^  obligation|^KNOWN|^UNDECIDED|^C[0-9]+:" | cut -c1-260
done
