#!/bin/bash
# tools/seedrun.sh <patch.diff> <PROP> [PROP...]: run the registered quick checks for PROPs against a scratch copy of /repo with the patch applied
M=${MREPO:-/tmp/mrepo}; B=${MBUILD:-/tmp/vt/build}; V=$(cd "$(dirname "$0")/.." && pwd)
[ "$MREPO_LOCKED" = 1 ] || { export MREPO_LOCKED=1; exec flock $M.lock "$0" "$@"; }
PATCH=$1; shift
rm -rf $M; rsync -a --exclude target --exclude .git /repo/ $M/
(cd $M && git apply --unsafe-paths --directory=$M $PATCH 2>/dev/null || patch -p1 -s < $PATCH) || { echo "PATCH FAILED"; exit 3; }
for P in "$@"; do
  cd $V && VERIF_REPO=$M VERIF_BUILD=$B ./check $P --no-evidence 2>&1 | grep -E "^VIOLATION|^  obligation|^KNOWN|^UNDECIDED|^C[0-9]+:" | cut -c1-260
done
