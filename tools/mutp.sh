#!/bin/sh
# tools/mutp.sh <property> <patchfile> [-R] [-- extra check args]: apply a patch to a scratch source copy of /repo, run the check against it
M=${MREPO:-/tmp/mrepo}; B=${MBUILD:-/tmp/vt/build}; V=$(cd "$(dirname "$0")/.." && pwd)
[ "$MREPO_LOCKED" = 1 ] || { export MREPO_LOCKED=1; exec flock $M.lock "$0" "$@"; }
P=$1; PATCH=$2; shift 2
REV=""; if [ "$1" = "-R" ]; then REV="-R"; shift; fi
# sync the scratch copy WITHOUT deleting it, and give every file whose content changed (e.g. the previous run's patch being reverted)
# a fresh mtime: cargo's fingerprints are mtime based, and rsync -a would restore the OLD mtime, leaving the previous change compiled in
rm -rf $B/target-native $B/target-kani   # never reuse compiled crates across different source states (cargo's mtime fingerprints are not reliable here)
mkdir -p $M; rsync -a --checksum --delete --exclude target --exclude .git --itemize-changes /repo/ $M/ | awk '$1 ~ /^>f/ {print $2}' | (cd $M && xargs -r touch)
(cd $M && patch -p1 $REV -s < $PATCH) || { echo "PATCH FAILED"; exit 3; }
cd $V && VERIF_REPO=$M VERIF_BUILD=$B ./check $P --no-evidence "$@" 2>&1 | grep -v "^  site" | cut -c1-300
