#!/bin/sh
# tools/mutp.sh <property> <patchfile> [-R] [-- extra check args]: apply a patch to a scratch source copy of /repo, run the check against it
M=${MREPO:-/tmp/mrepo}; B=${MBUILD:-/tmp/vt/build}; V=$(cd "$(dirname "$0")/.." && pwd)
[ "$MREPO_LOCKED" = 1 ] || { export MREPO_LOCKED=1; exec flock $M.lock "$0" "$@"; }
P=$1; PATCH=$2; shift 2
REV=""; if [ "$1" = "-R" ]; then REV="-R"; shift; fi
rm -rf $M; rsync -a --exclude target --exclude .git /repo/ $M/
(cd $M && patch -p1 $REV -s < $PATCH) || { echo "PATCH FAILED"; exit 3; }
cd $V && VERIF_REPO=$M VERIF_BUILD=$B ./check $P --no-evidence "$@" 2>&1 | grep -v "^  site" | cut -c1-300
