#!/bin/sh
# tools/mutp.sh <property> <patchfile> [-R] [-- extra check args]: apply a patch to a scratch source copy of /repo, run the check against it
[ "$MREPO_LOCKED" = 1 ] || { export MREPO_LOCKED=1; exec flock /tmp/mrepo.lock "$0" "$@"; }
P=$1; PATCH=$2; shift 2
REV=""; if [ "$1" = "-R" ]; then REV="-R"; shift; fi
rm -rf /tmp/mrepo; rsync -a --exclude target --exclude .git /repo/ /tmp/mrepo/
(cd /tmp/mrepo && patch -p1 $REV -s < $PATCH) || { echo "PATCH FAILED"; exit 3; }
cd /verif && VERIF_REPO=/tmp/mrepo VERIF_BUILD=/tmp/vt/build ./check $P --no-evidence "$@" 2>&1 | grep -v "^  site" | cut -c1-300
