use vstd::prelude::*;
verus! {
global size_of usize == 8;
#[derive(Structural, PartialEq, Eq, Clone, Copy)]
pub enum ErrorKind { InvalidInput, InvalidData, UnexpectedEof, Interrupted, Other }
pub mod io {
    use vstd::prelude::*;
    pub use super::ErrorKind;
    pub struct Error { pub k: ErrorKind }
    pub type Result<T> = core::result::Result<T, Error>;
    pub trait BufRead {
        spec fn remaining(&self) -> Seq<u8>;
        fn fill_buf(&mut self) -> (r: Result<&[u8]>)
            ensures final(self).remaining() == old(self).remaining(),
              r matches Ok(w) ==> w@.len() <= old(self).remaining().len() && w@ == old(self).remaining().subrange(0, w@.len() as int)
                        && (w@.len() == 0 ==> old(self).remaining().len() == 0);
        fn consume(&mut self, amt: usize);
    }
}
use io::BufRead;
pub enum CompressionMethod { Bgzf }
pub enum Format { Sam, Bam, Cram }

pub fn detect_compression_method<R>(reader: &mut R) -> (r: io::Result<Option<CompressionMethod>>)
where
    R: BufRead,
    // the verdict must be a function of the stream's leading bytes
    ensures r matches Ok(m) ==> (m.is_some() <==> (old(reader).remaining().len() >= 2 && old(reader).remaining()[0] == 0x1f && old(reader).remaining()[1] == 0x8b))
{
    const GZIP_MAGIC_NUMBER: [u8; 2] = [0x1f, 0x8b];

    let src = reader.fill_buf()?;

    if let Some(buf) = src.get(..GZIP_MAGIC_NUMBER.len()) { if buf == GZIP_MAGIC_NUMBER
    {
        return Ok(Some(CompressionMethod::Bgzf));
    } }

    Ok(None)
}
}
fn main(){}
