use vstd::prelude::*;
verus! {
global size_of usize == 8;
#[derive(Structural, PartialEq, Eq, Clone, Copy)]
pub enum ErrorKind { InvalidInput, InvalidData, UnexpectedEof, Interrupted, Other }
pub mod io {
    use vstd::prelude::*;
    pub use super::ErrorKind;
    pub struct Error { pub k: ErrorKind }
    impl Error { pub fn new<E>(kind: ErrorKind, e: E) -> (r: Error) ensures r.k == kind { Error { k: kind } } }
    pub type Result<T> = core::result::Result<T, Error>;
    pub trait Write {
        spec fn bytes(&self) -> Seq<u8>;
        fn write_all(&mut self, buf: &[u8]) -> (r: Result<()>)
            ensures r.is_ok() ==> final(self).bytes() == old(self).bytes() + buf@;
    }
}
use io::Write;
pub type BStr = [u8];
pub type BString = Vec<u8>;

const BACKSLASH: u8 = b'\\';
const QUOTATION_MARK: u8 = b'"';

pub open spec fn esc_body(s: Seq<u8>) -> Seq<u8> decreases s.len() {
    if s.len() == 0 { seq![] }
    else if s[0] == 92u8 || s[0] == 34u8 { seq![92u8, s[0]] + esc_body(s.subrange(1, s.len() as int)) }
    else { seq![s[0]] + esc_body(s.subrange(1, s.len() as int)) }
}

proof fn lemma_esc_push(s: Seq<u8>, c: u8)
    ensures esc_body(s.push(c)) == esc_body(s) + (if c == 92u8 || c == 34u8 { seq![92u8, c] } else { seq![c] })
    decreases s.len()
{
    if s.len() == 0 {
        assert(s.push(c).subrange(1, 1) =~= seq![]);
        assert(esc_body(seq![]) =~= seq![]);
        assert(s.push(c)[0] == c);
    } else {
        let t = s.subrange(1, s.len() as int);
        lemma_esc_push(t, c);
        assert(s.push(c).subrange(1, (s.len() + 1) as int) =~= t.push(c));
        assert(s.push(c)[0] == s[0]);
        assert(esc_body(s.push(c)) =~= esc_body(s) + (if c == 92u8 || c == 34u8 { seq![92u8, c] } else { seq![c] }));
    }
}

#[verifier::loop_isolation(false)]
fn write_escaped_string<W>(writer: &mut W, s: &BStr) -> (r: io::Result<()>)
where
    W: Write,
    ensures r.is_ok() ==> final(writer).bytes() == old(writer).bytes() + seq![34u8] + esc_body(s@) + seq![34u8]
{
    writer.write_all(&[QUOTATION_MARK])?;

    for c in it: s.iter() 
        invariant writer.bytes() == old(writer).bytes() + seq![34u8] + esc_body(s@.subrange(0, it.index() as int))
    {
        proof { lemma_esc_push(s@.subrange(0, it.index() as int), *c); assert(s@.subrange(0, it.index() + 1) =~= s@.subrange(0, it.index() as int).push(*c)); }
        let c = *c;
        if matches!(c, BACKSLASH | QUOTATION_MARK) {
            writer.write_all(&[BACKSLASH])?;
        }

        writer.write_all(&[c])?;
    }

    proof { assert(s@.subrange(0, s@.len() as int) =~= s@); }
    writer.write_all(&[QUOTATION_MARK])?;

    Ok(())
}

fn unescape_string(s: &[u8]) -> io::Result<BString> {
    const QUOTATION_MARK: u8 = b'"';

    enum State {
        Normal,
        Escape,
    }

    let mut dst = Vec::with_capacity(s.len());
    let mut state = State::Normal;

    for c in s.iter() {
        let c = *c;
        match state {
            State::Normal => {
                if c == BACKSLASH {
                    state = State::Escape;
                } else {
                    dst.push(c);
                }
            }
            State::Escape => {
                match c {
                    BACKSLASH | QUOTATION_MARK => dst.push(c),
                    _ => {
                        return Err(io::Error::new(
                            io::ErrorKind::InvalidData,
                            "invalid escape sequence",
                        ));
                    }
                }

                state = State::Normal;
            }
        }
    }

    Ok(dst.into())
}
}
fn main(){}
