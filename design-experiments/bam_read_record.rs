use vstd::prelude::*;
verus! {
global size_of usize == 8;

#[derive(Structural, PartialEq, Eq, Clone, Copy)]
pub enum ErrorKind { InvalidInput, InvalidData, UnexpectedEof, Interrupted, Other }
pub mod io {
    use vstd::prelude::*;
    pub use super::ErrorKind;
    pub struct Error { pub k: ErrorKind }
    impl Error {
        pub fn new<E>(kind: ErrorKind, e: E) -> (r: Error) ensures r.k == kind { Error { k: kind } }
        pub fn kind(&self) -> (r: ErrorKind) ensures r == self.k { self.k }
    }
    pub type Result<T> = core::result::Result<T, Error>;

    pub trait Read {
        spec fn remaining(&self) -> Seq<u8>;
        spec fn budget(&self) -> nat;
        spec fn errored(&self) -> bool; // ghost: the source itself reported a hard error   // ghost: how many more Interrupted may occur
        fn read_exact(&mut self, buf: &mut [u8]) -> (r: Result<()>)
            ensures
                final(buf)@.len() == old(buf)@.len(),
                match r {
                    Ok(()) => old(self).remaining().len() >= old(buf)@.len()
                        && final(buf)@ == old(self).remaining().subrange(0, old(buf)@.len() as int)
                        && final(self).remaining() == old(self).remaining().subrange(old(buf)@.len() as int, old(self).remaining().len() as int)
                        && final(self).errored() == old(self).errored(),
                    Err(e) => (e.k == ErrorKind::UnexpectedEof && !final(self).errored() ==> old(self).remaining().len() < old(buf)@.len())
                        && (e.k != ErrorKind::UnexpectedEof ==> final(self).errored()),
                };
        fn read(&mut self, buf: &mut [u8]) -> (r: Result<usize>)
            ensures
                final(buf)@.len() == old(buf)@.len(),
                match r {
                    Ok(n) => n <= old(buf)@.len() && n <= old(self).remaining().len()
                        && (n == 0 ==> old(buf)@.len() == 0 || old(self).remaining().len() == 0)
                        && final(buf)@ == old(self).remaining().subrange(0, n as int) + old(buf)@.subrange(n as int, old(buf)@.len() as int)
                        && final(self).remaining() == old(self).remaining().subrange(n as int, old(self).remaining().len() as int)
                        && final(self).budget() == old(self).budget() && final(self).errored() == old(self).errored(),
                    Err(e) => final(buf)@ == old(buf)@ && final(self).remaining() == old(self).remaining()
                        && (e.k == ErrorKind::Interrupted ==> final(self).budget() < old(self).budget() && final(self).errored() == old(self).errored())
                        && (e.k != ErrorKind::Interrupted ==> final(self).errored()),
                };
    }
}
use io::Read;

#[verifier::loop_isolation(false)]
#[verifier::allow_complex_invariants]
fn read_exact_or_eof<R>(reader: &mut R, mut buf: &mut [u8]) -> (r: io::Result<()>)
where
    R: Read,
    requires old(buf)@.len() <= usize::MAX,   // Rust slice type invariant
    ensures
        r.is_ok() ==> ({ let rem0 = old(reader).remaining(); let n = old(buf)@.len();
              (rem0.len() >= n && final(reader).remaining() == rem0.subrange(n as int, rem0.len() as int) && final(buf)@ == rem0.subrange(0, n as int))
           || (rem0.len() == 0 && n > 0 && final(buf)@ == old(buf)@ && final(reader).remaining() == rem0) }),
        r.is_err() ==> ({ let rem0 = old(reader).remaining(); let n = old(buf)@.len();
              final(reader).errored() || (r.unwrap_err().k == io::ErrorKind::UnexpectedEof && 0 < rem0.len() < n) }),
{
    let mut bytes_read = 0;
    let ghost rem0 = reader.remaining();
    let ghost n0 = buf@.len();
    let ghost b0 = buf@;

    while !buf.is_empty()
        invariant
            bytes_read <= n0, bytes_read <= rem0.len(),
            buf@.len() == n0 - bytes_read,
            reader.remaining() == rem0.subrange(bytes_read as int, rem0.len() as int),
            buf@ == b0.subrange(bytes_read as int, n0 as int),
            final(old(buf))@ == rem0.subrange(0, bytes_read as int) + final(buf)@,
        ensures buf@.len() == 0 || reader.remaining().len() == 0,
        decreases buf@.len(), reader.budget()
    {
        let ghost len_before = buf@.len();
        let ghost bud_before = reader.budget();
        match reader.read(buf) {
            Ok(0) => break,
            Ok(n) => {
                proof { assert(n <= len_before); assert(buf@.len() == len_before); assert(n > 0); }
                buf = &mut buf[n..];
                proof { assert(buf@.len() == len_before - n); }
                bytes_read += n;
            }
            Err(ref e) if e.kind() == io::ErrorKind::Interrupted => { proof { assert(reader.budget() < bud_before); assert(buf@.len() == len_before); } }
            Err(e) => return Err(e),
        }
    }

    if bytes_read > 0 && !buf.is_empty() {
        Err(io::Error::new(
            io::ErrorKind::UnexpectedEof,
            "failed to fill whole buffer",
        ))
    } else {
        Ok(())
    }
}


pub open spec fn le32(b: Seq<u8>) -> u32 { (b[0] as u32) | (b[1] as u32) << 8 | (b[2] as u32) << 16 | (b[3] as u32) << 24 }
#[verifier::external_body]
pub fn v_u32_from_le_bytes(b: [u8; 4]) -> (r: u32) ensures r == le32(b@) { u32::from_le_bytes(b) }

fn read_block_size<R>(reader: &mut R) -> (r: io::Result<usize>)
where
    R: Read,
    ensures
        ({ let rem = old(reader).remaining();
           match r {
             Ok(n) => (rem.len() >= 4 && n == le32(rem.subrange(0, 4)) && final(reader).remaining() == rem.subrange(4, rem.len() as int))
                   || (rem.len() == 0 && n == 0 && final(reader).remaining() == rem),
             Err(e) => final(reader).errored() || (e.k == io::ErrorKind::UnexpectedEof && 0 < rem.len() < 4),
           } })
{
    let mut buf = [0; 4];
    proof { assert(le32(seq![0u8, 0u8, 0u8, 0u8]) == 0) by { assert((0u32 | 0u32 << 8 | 0u32 << 16 | 0u32 << 24) == 0) by (bit_vector); }; assert(buf@ =~= seq![0u8, 0u8, 0u8, 0u8]); }
    read_exact_or_eof(reader, &mut buf)?;
    let n = v_u32_from_le_bytes(buf);
    usize::try_from(n).map_err(|e| io::Error::new(io::ErrorKind::InvalidData, e))
}

#[verifier::external_body]
pub fn validate(src: &[u8]) -> (r: io::Result<()>) ensures r.is_err() ==> r.unwrap_err().k != io::ErrorKind::Interrupted { unimplemented!() }

// C13: a byte stream that ends inside a record is an error, never a clean end of file
pub fn read_record<R>(reader: &mut R, buf: &mut Vec<u8>) -> (r: io::Result<usize>)
where
    R: Read,
    ensures
        ({ let rem = old(reader).remaining();
           &&& r matches Ok(n) ==> (n == 0 ==> rem.len() == 0 || (rem.len() >= 4 && le32(rem.subrange(0, 4)) == 0))
                                && (n > 0 ==> rem.len() >= 4 + n && n == le32(rem.subrange(0, 4)) && final(buf)@ == rem.subrange(4, 4 + n) && final(reader).remaining() == rem.subrange(4 + n, rem.len() as int))
           &&& (0 < rem.len() < 4 || (rem.len() >= 4 && rem.len() < 4 + le32(rem.subrange(0, 4)))) ==> r.is_err() })
{
    let block_size = match read_block_size(reader)? {
        0 => return Ok(0),
        n => n,
    };

    buf.resize(block_size, 0);
    reader.read_exact(buf)?;

    validate(buf)?;

    Ok(block_size)
}
} // verus!
fn main() {}
