use vstd::prelude::*;
use vstd::std_specs::convert::*;
verus! {
global size_of usize == 8;

// ===== noodles-bgzf/src/virtual_position.rs (extracted) =====
pub exec const MAX_COMPRESSED_POSITION: u64
    ensures MAX_COMPRESSED_POSITION == 0xffff_ffff_ffff
{
    proof { assert((1u64 << 48) == 0x1_0000_0000_0000) by (bit_vector); }
    (1 << 48) - 1
}
pub const MAX_UNCOMPRESSED_POSITION: u16 = u16::MAX;

const COMPRESSED_POSITION_SHIFT: u64 = 16;
const UNCOMPRESSED_POSITION_MASK: u64 = 0xffff;

pub struct VirtualPosition(pub u64);

#[derive(Clone, Debug, Eq, PartialEq)]
pub enum TryFromU64U16TupleError {
    CompressedPositionOverflow,
}

pub open spec fn pack(c: u64, u: u16) -> u64 { (c * 65536 + u as u64) as u64 }

impl VirtualPosition {
    pub const fn compressed(self) -> (r: u64)
        ensures r == self.0 / 65536
    {
        proof { let x = self.0; assert(x >> 16 == x / 65536) by (bit_vector); }
        self.0 >> COMPRESSED_POSITION_SHIFT
    }

    pub const fn uncompressed(self) -> (r: u16)
        ensures r as u64 == self.0 % 65536
    {
        proof { let x = self.0; assert(x & 0xffff == x % 65536) by (bit_vector); }
        (self.0 & UNCOMPRESSED_POSITION_MASK) as u16
    }
}

impl TryFromSpecImpl<(u64, u16)> for VirtualPosition {
    open spec fn obeys_try_from_spec() -> bool { false }
    open spec fn try_from_spec(pos: (u64, u16)) -> Result<Self, Self::Error> { arbitrary() }
}
impl TryFrom<(u64, u16)> for VirtualPosition {
    type Error = TryFromU64U16TupleError;

    fn try_from(pos: (u64, u16)) -> (r: Result<Self, Self::Error>)
        ensures
            pos.0 <= 0xffff_ffff_ffff ==> r.is_ok() && r.unwrap().0 == pack(pos.0, pos.1),
            pos.0 > 0xffff_ffff_ffff ==> r.is_err(),
    {
        let (compressed_pos, uncompressed_pos) = pos;

        proof { assert((1u64 << 48) - 1 == 0xffff_ffff_ffff) by (bit_vector); }
        if compressed_pos > MAX_COMPRESSED_POSITION {
            return Err(TryFromU64U16TupleError::CompressedPositionOverflow);
        }

        proof {
            let c = compressed_pos; let u = uncompressed_pos as u64;
            assert(c <= 0xffff_ffff_ffff && u <= 0xffff ==> (c << 16) | u == c * 65536 + u) by (bit_vector);
        }
        Ok(Self(
            (compressed_pos << COMPRESSED_POSITION_SHIFT) | u64::from(uncompressed_pos),
        ))
    }
}

// C02: pack/unpack inverse and order-preserving
proof fn lemma_pack(c: u64, u: u16)
    requires c <= 0xffff_ffff_ffff
    ensures pack(c, u) / 65536 == c, pack(c, u) % 65536 == u as u64
{
    assert((c * 65536 + u as u64) / 65536 == c && (c * 65536 + u as u64) % 65536 == u as u64) by (nonlinear_arith) requires u < 65536;
}
proof fn lemma_order(c1: u64, u1: u16, c2: u64, u2: u16)
    requires c1 <= 0xffff_ffff_ffff, c2 <= 0xffff_ffff_ffff
    ensures pack(c1, u1) < pack(c2, u2) <==> (c1 < c2 || (c1 == c2 && u1 < u2))
{
    assert(c1 * 65536 + u1 < c2 * 65536 + u2 <==> (c1 < c2 || (c1 == c2 && u1 < u2))) by (nonlinear_arith) requires u1 < 65536, u2 < 65536;
}

// ===== noodles-bgzf/src/io/block/data.rs + block.rs (extracted) =====
pub const BGZF_MAX_ISIZE: usize = 65536;
pub struct Data {
    pub buf: Box<[u8; BGZF_MAX_ISIZE]>,
    pub pos: usize,
    pub len: usize,
}

impl Data {
    pub open spec fn wf(&self) -> bool { self.pos <= self.len <= BGZF_MAX_ISIZE }

    pub fn has_remaining(&self) -> (r: bool) ensures r == (self.pos < self.len) {
        self.pos < self.len
    }

    pub fn position(&self) -> (r: usize) ensures r == self.pos {
        self.pos
    }

    pub fn set_position(&mut self, position: usize)
        requires position <= old(self).len, old(self).wf()       // "must be <= the length of the buffer to be valid"
        ensures final(self).wf(), final(self).pos == position, final(self).len == old(self).len, final(self).buf == old(self).buf
    {
        self.pos = position;
    }

    pub fn len(&self) -> (r: usize) ensures r == self.len {
        self.len
    }

    pub fn consume(&mut self, amt: usize)
        requires old(self).wf(), old(self).pos + amt <= usize::MAX
        ensures final(self).wf(), final(self).len == old(self).len, final(self).buf == old(self).buf,
            final(self).pos == if old(self).pos + amt <= old(self).len { (old(self).pos + amt) as usize } else { old(self).len },
    {
        self.pos = (self.pos + amt).min(self.len);
    }

    // impl AsRef<[u8]> for Data
    fn as_ref(&self) -> (r: &[u8])
        requires self.wf()
        ensures r@ == self.buf@.subrange(self.pos as int, self.len as int)
    {
        &self.buf[self.pos..self.len]
    }
}

pub struct Block {
    pub pos: u64,
    pub size: u64,
    pub data: Data,
}

impl Block {
    pub fn virtual_position(&self) -> (r: VirtualPosition)
        requires self.data.wf(), self.pos + self.size <= 0xffff_ffff_ffff,
        ensures r.0 == if self.data.pos < self.data.len { pack(self.pos, self.data.pos as u16) } else { pack((self.pos + self.size) as u64, 0) }
    {
        proof { assert((1u64 << 48) - 1 == 0xffff_ffff_ffff) by (bit_vector); }
        if self.data.has_remaining() {
            assert!(self.pos <= MAX_COMPRESSED_POSITION);
            assert!(
                self.data.position() <= usize::from(MAX_UNCOMPRESSED_POSITION)
            );
            VirtualPosition::try_from((self.pos, self.data.position() as u16)).unwrap()
        } else {
            let next_cpos = self.pos + self.size;
            assert!(next_cpos <= MAX_COMPRESSED_POSITION);
            VirtualPosition::try_from((next_cpos, 0)).unwrap()
        }
    }
}
}
fn main(){}
