#[cfg(kani)]
mod proofs {
    use noodles_bam::record::codec::{encoder::verif_hooks::*, decoder::verif_hooks::*};
    use noodles_core::Position;
    use noodles_sam::alignment::record::cigar::{Op, op::Kind};

    // SAM v1 §5.3 reg2bin (C source transcribed), beg 0-based, end 0-based exclusive
    fn spec_reg2bin(beg: u64, end: u64) -> u64 {
        let end = end - 1;
        if beg >> 14 == end >> 14 { return ((1 << 15) - 1) / 7 + (beg >> 14); }
        if beg >> 17 == end >> 17 { return ((1 << 12) - 1) / 7 + (beg >> 17); }
        if beg >> 20 == end >> 20 { return ((1 << 9) - 1) / 7 + (beg >> 20); }
        if beg >> 23 == end >> 23 { return ((1 << 6) - 1) / 7 + (beg >> 23); }
        if beg >> 26 == end >> 26 { return ((1 << 3) - 1) / 7 + (beg >> 26); }
        0
    }

    #[kani::proof]
    fn bam_region_to_bin_is_spec_reg2bin() {
        let s: usize = kani::any();
        let e: usize = kani::any();
        kani::assume(1 <= s && s <= e && e <= (1usize << 29));
        let bin = __verif_region_to_bin(Position::try_from(s).unwrap(), Position::try_from(e).unwrap());
        assert!(bin as u64 == spec_reg2bin((s - 1) as u64, e as u64));
    }

    fn kind_of(k: u8) -> Kind {
        match k { 0 => Kind::Match, 1 => Kind::Insertion, 2 => Kind::Deletion, 3 => Kind::Skip, 4 => Kind::SoftClip,
                  5 => Kind::HardClip, 6 => Kind::Pad, 7 => Kind::SequenceMatch, _ => Kind::SequenceMismatch }
    }

    #[kani::proof]
    fn bam_cigar_op_roundtrip() {
        let k: u8 = kani::any(); kani::assume(k <= 8);
        let len: usize = kani::any();
        let op = Op::new(kind_of(k), len);
        match __verif_encode_op(op) {
            Ok(n) => {
                assert!(len < (1 << 28));
                assert!(n == ((len as u32) << 4 | k as u32));     // SAM §4.2: op_len<<4|op
                let back = __verif_decode_op(n).unwrap();
                assert!(back == op);
            }
            Err(_) => assert!(len >= (1 << 28)),
        }
    }

    #[kani::proof]
    fn bam_decode_op_total() {
        let n: u32 = kani::any();
        match __verif_decode_op(n) {
            Ok(op) => { assert!((n & 0xf) <= 8); assert!(op.len() == (n >> 4) as usize); }
            Err(_) => assert!((n & 0xf) > 8),
        }
    }

    #[kani::proof]
    fn bam_base_codes() {
        let b: u8 = kani::any();
        let code = __verif_encode_base(b);
        const BASES: [u8; 16] = *b"=ACMGRSVTWYHKDBN";
        assert!(code < 16);
        let up = b.to_ascii_uppercase();
        let mut expected = 15u8;
        let mut i = 0; while i < 16 { if BASES[i] == up { expected = i as u8; } i += 1; }
        assert!(code == expected);
    }
}

#[cfg(kani)]
mod csi_proofs {
    use noodles_bgzf::VirtualPosition as V;
    use noodles_csi::binning_index::{index::reference_sequence::bin::Chunk, optimize_chunks};

    #[kani::proof]
    #[kani::unwind(4)]
    fn csi_optimize_chunks_bounded3() {
        const N: usize = 2;
        let mut input = [Chunk::new(V::from(0), V::from(0)); N];
        let n: usize = kani::any(); kani::assume(n <= N);
        for i in 0..N { let s: u8 = kani::any(); let e: u8 = kani::any(); input[i] = Chunk::new(V::from(s as u64), V::from(e as u64)); }
        let m: u8 = kani::any();
        let min = V::from(m as u64);
        let out = optimize_chunks(&input[..n], min);
        // coverage
        for i in 0..n {
            let c = input[i];
            if c.end() > min {
                let mut covered = false;
                for j in 0..out.len() { if out[j].start() <= c.start() && c.end() <= out[j].end() { covered = true; } }
                assert!(covered);
            }
        }
        // non-overlapping, sorted
        for j in 1..out.len() { assert!(out[j - 1].end() <= out[j].start() || out[j-1].start() > out[j-1].end()); }
    }
}
