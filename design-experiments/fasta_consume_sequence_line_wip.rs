use vstd::prelude::*;
verus! {
global size_of usize == 8;
#[derive(Structural, PartialEq, Eq, Clone, Copy)]
pub enum ErrorKind { InvalidInput, InvalidData, UnexpectedEof, Interrupted, Other }
pub mod io {
    use vstd::prelude::*;
    pub use super::ErrorKind;
    pub struct Error { pub k: ErrorKind }
    pub type Result<T> = core::result::Result<T, Error>;
    pub trait BufRead {
        spec fn remaining(&self) -> Seq<u8>;
        spec fn errored(&self) -> bool;
        // std::io::BufRead::fill_buf: a non-empty window onto the front of the stream, of ANY length,
        // unless the stream is exhausted
        fn fill_buf(&mut self) -> (r: Result<&[u8]>)
            ensures
                final(self).remaining() == old(self).remaining(),
                match r {
                    Ok(w) => w@.len() <= old(self).remaining().len() && w@ == old(self).remaining().subrange(0, w@.len() as int)
                        && (w@.len() == 0 ==> old(self).remaining().len() == 0) && final(self).errored() == old(self).errored(),
                    Err(e) => final(self).errored(),
                };
        fn consume(&mut self, amt: usize)
            requires amt <= old(self).remaining().len()
            ensures final(self).remaining() == old(self).remaining().subrange(amt as int, old(self).remaining().len() as int),
                final(self).errored() == old(self).errored();
    }
}
use io::BufRead;

// model: memchr::memchr
#[verifier::external_body]
pub fn memchr(needle: u8, haystack: &[u8]) -> (r: Option<usize>)
    ensures
        match r {
            Some(i) => i < haystack@.len() && haystack@[i as int] == needle && forall|j: int| 0 <= j < i ==> haystack@[j] != needle,
            None => forall|j: int| 0 <= j < haystack@.len() ==> haystack@[j] != needle,
        }
{ unimplemented!() }

pub const DEFINITION_PREFIX: u8 = b'>';

// index one past the first LF, or the length if there is none
pub open spec fn line_len(s: Seq<u8>) -> nat decreases s.len() {
    if s.len() == 0 { 0 } else if s[0] == 10u8 { 1 } else { 1 + line_len(s.subrange(1, s.len() as int)) }
}
pub open spec fn no_gt_inside(s: Seq<u8>) -> bool { forall|i: int| 1 <= i < line_len(s) ==> s[i] != 62u8 }

#[verifier::loop_isolation(false)]
fn consume_sequence_line<R>(reader: &mut R) -> (r: io::Result<(usize, usize)>)
where
    R: BufRead,
    requires no_gt_inside(old(reader).remaining()), old(reader).remaining().len() < usize::MAX,
    ensures
        r matches Ok((n, _b)) ==> ({ let rem = old(reader).remaining();
            n == (if rem.len() == 0 || rem[0] == 62u8 { 0 } else { line_len(rem) })
            && final(reader).remaining() == rem.subrange(n as int, rem.len() as int) }),
        r.is_err() ==> final(reader).errored(),
{
    const LINE_FEED: u8 = b'\n';
    const CARRIAGE_RETURN: u8 = b'\r';

    fn count_bases(buf: &[u8]) -> usize {
        if buf.ends_with(&[CARRIAGE_RETURN]) {
            buf.len() - 1
        } else {
            buf.len()
        }
    }

    let mut bytes_read = 0;
    let mut base_count = 0;
    let mut is_eol = false;

    let ghost rem0 = reader.remaining();
    loop 
        invariant
            bytes_read <= rem0.len(),
            reader.remaining() == rem0.subrange(bytes_read as int, rem0.len() as int),
        decreases rem0.len() - bytes_read + (if is_eol { 0int } else { 1int })
    {
        let src = reader.fill_buf()?;

        if is_eol || src.is_empty() || src[0] == DEFINITION_PREFIX {
            break;
        }

        let (chunk_len, chunk_base_count) = match memchr(LINE_FEED, src) {
            Some(i) => {
                is_eol = true;
                (i + 1, count_bases(&src[..i]))
            }
            None => (src.len(), count_bases(src)),
        };

        reader.consume(chunk_len);

        bytes_read += chunk_len;
        base_count += chunk_base_count;
    }

    Ok((bytes_read, base_count))
}
}
fn main(){}
