use vstd::prelude::*;
verus! {
global size_of usize == 8;
#[derive(Structural, PartialEq, Eq, Clone, Copy)]
pub enum ErrorKind { InvalidInput, InvalidData, UnexpectedEof, Interrupted, Other }
pub mod io {
    use vstd::prelude::*;
    pub use super::ErrorKind;
    pub struct Error { pub k: ErrorKind }
    impl Error {
        pub fn new<E>(kind: ErrorKind, e: E) -> (r: Error) ensures r.k == kind { Error { k: kind } }
        pub fn kind(&self) -> (r: ErrorKind) ensures r == self.k { self.k }
    }
    pub type Result<T> = core::result::Result<T, Error>;
    pub trait Read {
        spec fn remaining(&self) -> Seq<u8>;
        spec fn errored(&self) -> bool;
        // documented contract of std::io::Read::read_exact
        fn read_exact(&mut self, buf: &mut [u8]) -> (r: Result<()>)
            ensures
                final(buf)@.len() == old(buf)@.len(),
                match r {
                    Ok(()) => old(self).remaining().len() >= old(buf)@.len()
                        && final(buf)@ == old(self).remaining().subrange(0, old(buf)@.len() as int)
                        && final(self).remaining() == old(self).remaining().subrange(old(buf)@.len() as int, old(self).remaining().len() as int)
                        && final(self).errored() == old(self).errored(),
                    Err(e) => (e.k == ErrorKind::UnexpectedEof && !final(self).errored() ==> old(self).remaining().len() < old(buf)@.len())
                        && (e.k != ErrorKind::UnexpectedEof ==> final(self).errored()),
                };
    }
}
use io::Read;
pub const BGZF_HEADER_SIZE: usize = 18;
const MIN_FRAME_SIZE: usize = 26;
pub open spec fn le16(b: Seq<u8>) -> u16 { (b[0] as u16) | (b[1] as u16) << 8 }
#[verifier::external_body]
pub fn v_u16_from_le_last_chunk(b: &Vec<u8>) -> (r: u16) requires b@.len() >= 2 ensures r == le16(b@.subrange(b@.len() - 2, b@.len() as int)) { unimplemented!() }

pub open spec fn bsize_of(rem: Seq<u8>) -> int { le16(rem.subrange(16, 18)) as int + 1 }

#[verifier::loop_isolation(false)]
pub fn read_frame_into<R>(reader: &mut R, buf: &mut Vec<u8>) -> (r: io::Result<Option<()>>)
where
    R: Read,
    ensures
        ({ let rem = old(reader).remaining();
           match r {
             // a complete frame was taken from the front of the stream, byte for byte
             Ok(Some(())) => rem.len() >= 18 && bsize_of(rem) >= 26 && rem.len() >= bsize_of(rem)
                    && final(buf)@ == rem.subrange(0, bsize_of(rem)) && final(reader).remaining() == rem.subrange(bsize_of(rem), rem.len() as int),
             // end of input is only reported when not even a header is left
             Ok(None) => rem.len() < 18 || final(reader).errored(),
             Err(e) => final(reader).errored()
                    || (e.k == ErrorKind::InvalidData && rem.len() >= 18 && bsize_of(rem) < 26)
                    || (e.k == ErrorKind::UnexpectedEof && rem.len() >= 18 && rem.len() < bsize_of(rem)),
           } })
{
    buf.resize(BGZF_HEADER_SIZE, 0);

    match reader.read_exact(buf) {
        Ok(()) => {}
        Err(ref e) if e.kind() == io::ErrorKind::UnexpectedEof => return Ok(None),
        Err(e) => return Err(e),
    }

    // SAFETY: `buf.len() == BGZF_HEADER_SIZE >= mem::size_of::<u16>()`.
    let ghost rem = old(reader).remaining();
    proof { assert(buf@.subrange(16, 18) =~= rem.subrange(16, 18)); }
    let bsize = v_u16_from_le_last_chunk(buf);
    let block_size = usize::from(bsize) + 1;
    proof { assert(block_size as int == bsize_of(rem)); }
    let ghost hdr = buf@;

    if block_size < MIN_FRAME_SIZE {
        return Err(io::Error::new(
            io::ErrorKind::InvalidData,
            "invalid frame size",
        ));
    }

    buf.resize(block_size, 0);
    proof { assert(buf@.subrange(0, 18) =~= hdr); }
    let ghost rem1 = reader.remaining();
    reader.read_exact(&mut buf.as_mut_slice()[BGZF_HEADER_SIZE..])?;
    proof {
        assert(buf@.subrange(0, 18) =~= hdr);
        assert(buf@ =~= rem.subrange(0, bsize_of(rem)));
        assert(reader.remaining() =~= rem.subrange(bsize_of(rem), rem.len() as int));
    }

    Ok(Some(()))
}
}
fn main(){}
