extern crate alloc;
#[cfg(kani)]
mod proofs {
    use noodles_bcf::record::verif_hooks::*;

    fn fmt_stub(_: core::fmt::Arguments<'_>) -> String { String::new() }

    #[kani::proof]
    #[kani::stub(alloc::fmt::format, fmt_stub)]
    fn bcf_info_integer_roundtrip() {
        let n: i32 = kani::any();
        let mut buf = [0u8; 8];
        let mut w = &mut buf[..];
        let res = __verif_write_integer_value(&mut w, n);
        let written = 8 - w.len();
        if n < i32::MIN + 8 {
            assert!(res.is_err());
        } else {
            assert!(res.is_ok());
            let mut r = &buf[..written];
            let v = read_value(&mut r).unwrap();
            assert!(r.is_empty());
            let back: i32 = match v {
                Some(Value::Int8(Some(Int8::Value(x)))) => i32::from(x),
                Some(Value::Int16(Some(Int16::Value(x)))) => i32::from(x),
                Some(Value::Int32(Some(Int32::Value(x)))) => x,
                _ => { assert!(false); 0 }
            };
            assert!(back == n);
            // smallest width (BCF §6.3.3)
            let expected_len = if n >= -120 && n <= 127 { 2 } else if n >= -32760 && n <= 32767 { 3 } else { 5 };
            assert!(written == expected_len);
        }
    }
}
