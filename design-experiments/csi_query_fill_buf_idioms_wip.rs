use vstd::prelude::*;
use std::vec;
verus! {
global size_of usize == 8;
#[derive(Structural, PartialEq, Eq, Clone, Copy)]
pub enum ErrorKind { InvalidInput, InvalidData, UnexpectedEof, Interrupted, Other }
pub mod io {
    use vstd::prelude::*;
    pub use super::ErrorKind;
    pub struct Error { pub k: ErrorKind }
    pub type Result<T> = core::result::Result<T, Error>;
    pub trait BufRead {
        fn fill_buf(&mut self) -> (r: Result<&[u8]>);
        fn consume(&mut self, amt: usize);
    }
}
use io::BufRead;
pub mod bgzf {
    use vstd::prelude::*;
    use vstd::std_specs::cmp::*;
    use core::cmp::Ordering;
    #[derive(Clone, Copy, Debug, PartialEq, Eq)]
    pub struct VirtualPosition(pub u64);
    impl VirtualPosition { pub open spec fn v(self) -> u64 { self.0 } }
    impl PartialOrdSpecImpl for VirtualPosition {
        open spec fn obeys_partial_cmp_spec() -> bool { true }
        open spec fn partial_cmp_spec(&self, other: &VirtualPosition) -> Option<Ordering> {
            if self.v() < other.v() { Some(Ordering::Less) } else if self.v() == other.v() { Some(Ordering::Equal) } else { Some(Ordering::Greater) }
        }
    }
    impl PartialOrd for VirtualPosition {
        #[verifier::external_body]
        fn partial_cmp(&self, other: &VirtualPosition) -> (r: Option<Ordering>) { self.0.partial_cmp(&other.0) }
    }
    pub mod io {
        use super::VirtualPosition;
        pub trait BufRead: crate::io::BufRead { fn virtual_position(&self) -> VirtualPosition; }
        pub trait Seek { fn seek_to_virtual_position(&mut self, pos: VirtualPosition) -> crate::io::Result<VirtualPosition>; }
    }
}
#[derive(Clone, Copy, Debug, Eq, PartialEq)]
pub struct Chunk { pub start: bgzf::VirtualPosition, pub end: bgzf::VirtualPosition }
impl Chunk {
    pub fn start(&self) -> (r: bgzf::VirtualPosition) ensures r == self.start { self.start }
    pub fn end(&self) -> (r: bgzf::VirtualPosition) ensures r == self.end { self.end }
}

enum State {
    Seek,
    Read(bgzf::VirtualPosition),
    Done,
}

pub struct Query<'r, R> {
    reader: &'r mut R,
    chunks: vec::IntoIter<Chunk>,
    state: State,
}

impl<R> BufRead for Query<'_, R>
where
    R: bgzf::io::BufRead + bgzf::io::Seek,
{
    #[verifier::exec_allows_no_decreases_clause]
    fn fill_buf(&mut self) -> io::Result<&[u8]> {
        loop {
            match self.state {
                State::Seek => {
                    self.state = match self.chunks.next() {
                        Some(chunk) => {
                            self.reader.seek_to_virtual_position(chunk.start())?;
                            State::Read(chunk.end())
                        }
                        None => State::Done,
                    }
                }
                State::Read(chunk_end) => {
                    if self.reader.virtual_position() < chunk_end {
                        return self.reader.fill_buf();
                    } else {
                        self.state = State::Seek;
                    }
                }
                State::Done => return Ok(&[]),
            }
        }
    }

    fn consume(&mut self, amt: usize) {
        self.reader.consume(amt);
    }
}
}
fn main(){}
