use vstd::prelude::*;
verus! {
global size_of usize == 8;

pub mod io {
    use vstd::prelude::*;
    #[derive(PartialEq, Eq, Clone, Copy)]
    pub enum ErrorKind { InvalidInput, InvalidData, UnexpectedEof, Interrupted, Other }
    pub struct Error { pub k: ErrorKind }
    pub type Result<T> = core::result::Result<T, Error>;
    pub trait Write {
        spec fn bytes(&self) -> Seq<u8>;
        spec fn failed(&self) -> bool;
        spec fn inv(&self) -> bool;
        fn write_all(&mut self, buf: &[u8]) -> (r: Result<()>)
            requires old(self).inv()
            ensures final(self).inv(),
                r.is_ok() ==> final(self).bytes() == old(self).bytes() + buf@ && final(self).failed() == old(self).failed(),
                r.is_err() ==> final(self).failed();
        fn write(&mut self, buf: &[u8]) -> (r: Result<usize>)
            requires old(self).inv()
            ensures final(self).inv(),
                r matches Ok(n) ==> n <= buf@.len() && final(self).bytes() == old(self).bytes() + buf@.subrange(0, n as int) && final(self).failed() == old(self).failed(),
                r.is_err() ==> final(self).failed();
        fn flush(&mut self) -> (r: Result<()>)
            requires old(self).inv()
            ensures final(self).inv(), final(self).bytes() == old(self).bytes(),
                r.is_ok() ==> final(self).failed() == old(self).failed(),
                r.is_err() ==> final(self).failed();
    }
}
use io::Write;

pub const MAX_BUF_SIZE: usize = 65495;
pub const BGZF_EOF: [u8; 28] = [
    0x1f, 0x8b, 0x08, 0x04, 0x00, 0x00, 0x00, 0x00, 0x00, 0xff, 0x06, 0x00, 0x42, 0x43, 0x02, 0x00, 0x1b, 0x00, 0x03, 0x00, 0x00, 0x00, 0x00, 0x00, 0x00, 0x00, 0x00, 0x00,
];
pub type CompressionLevelImpl = i32;

pub uninterp spec fn spec_inflate(c: Seq<u8>) -> Seq<u8>;
pub uninterp spec fn spec_crc32(c: Seq<u8>) -> u32;
pub uninterp spec fn spec_frame(cdata: Seq<u8>, crc: u32, isize: int) -> Seq<u8>;

pub mod deflate {
    use vstd::prelude::*;
    use super::*;
    #[verifier::external_body]
    pub fn encode(src: &[u8], compression_level: i32, dst: &mut Vec<u8>) -> (r: io::Result<u32>)
        ensures r matches Ok(crc) ==> crc == spec_crc32(src@) && spec_inflate(final(dst)@) == src@ && (src@.len() <= MAX_BUF_SIZE ==> final(dst)@.len() <= 65510)
    { unimplemented!() }
}
#[verifier::external_body]
pub fn write_frame<W: Write>(writer: &mut W, compressed_data: &[u8], crc32: u32, uncompressed_size: usize) -> (r: io::Result<usize>)
    requires old(writer).inv(), compressed_data@.len() <= usize::MAX - 26,
    ensures final(writer).inv(),
        r matches Ok(bs) ==> bs == 26 + compressed_data@.len() && bs <= 65536 
            && final(writer).bytes() == old(writer).bytes() + spec_frame(compressed_data@, crc32, uncompressed_size as int)
            && final(writer).failed() == old(writer).failed(),
        r.is_err() ==> final(writer).failed(),
{ unimplemented!() }

pub open spec fn is_frame(f: Seq<u8>, payload: Seq<u8>) -> bool {
    exists|c: Seq<u8>| #[trigger] spec_inflate(c) == payload && f == spec_frame(c, spec_crc32(payload), payload.len() as int) && c.len() + 26 <= 65536
}
pub open spec fn one_frame(before: Seq<u8>, after: Seq<u8>, payload: Seq<u8>) -> bool {
    exists|f: Seq<u8>| after == before + f && #[trigger] is_frame(f, payload) && f.len() <= 65536
}
pub struct Writer<W>
where
    W: Write,
{
    inner: Option<W>,
    position: u64,
    staging_buf: Vec<u8>,
    compression_buf: Vec<u8>,
    compression_level: CompressionLevelImpl,
}

impl<W> Writer<W>
where
    W: Write,
{
    pub closed spec fn wf(&self) -> bool {
        self.inner.is_some() && self.inner.unwrap().inv() && self.staging_buf@.len() <= MAX_BUF_SIZE
    }

    pub closed spec fn sink(&self) -> W { self.inner.unwrap() }
    pub closed spec fn staged(&self) -> Seq<u8> { self.staging_buf@ }
    pub closed spec fn pos(&self) -> u64 { self.position }

    fn flush_block(&mut self) -> (r: io::Result<()>)
        requires old(self).wf(), old(self).position < 0x1_0000_0000_0000,
        ensures final(self).wf(),
            r.is_ok() ==> final(self).staged().len() == 0
                && one_frame(old(self).sink().bytes(), final(self).sink().bytes(), old(self).staged())
                && final(self).pos() == old(self).pos() + (final(self).sink().bytes().len() - old(self).sink().bytes().len())
                && final(self).sink().failed() == old(self).sink().failed(),
            r.is_err() ==> final(self).staged() == old(self).staged() && (final(self).sink().failed() || !old(self).sink().failed()),
            final(self).sink().failed() && !old(self).sink().failed() ==> r.is_err(),
    {
        use crate::deflate;

        let compressed_data = &mut self.compression_buf;
        let crc32 = deflate::encode(&self.staging_buf, self.compression_level, compressed_data)?;

        let inner = self.inner.as_mut().unwrap();
        let uncompressed_size = self.staging_buf.len();
        let block_size = write_frame(inner, compressed_data, crc32, uncompressed_size)?;

        self.position += block_size as u64;

        self.staging_buf.clear();

        Ok(())
    }

    fn remaining(&self) -> (r: usize)
        requires self.wf()
        ensures r == MAX_BUF_SIZE - self.staging_buf@.len()
    {
        MAX_BUF_SIZE - self.staging_buf.len()
    }

    fn has_remaining(&self) -> (r: bool) 
        ensures r == (self.staging_buf@.len() < MAX_BUF_SIZE)
    {
        self.staging_buf.len() < MAX_BUF_SIZE
    }
}


impl<W> Write for Writer<W>
where
    W: Write,
{
    open spec fn bytes(&self) -> Seq<u8> { self.staged() }   // placeholder view; real view defined in unit
    open spec fn failed(&self) -> bool { self.sink().failed() }
    open spec fn inv(&self) -> bool { self.wf() && self.pos() < 0x1_0000_0000_0000 }

    fn write(&mut self, buf: &[u8]) -> (r: io::Result<usize>) {
        let amt = self.remaining().min(buf.len());
        self.staging_buf.extend_from_slice(&buf[..amt]);

        if !self.has_remaining() {
            self.flush()?;
        }

        Ok(amt)
    }

    fn flush(&mut self) -> (r: io::Result<()>) {
        if self.staging_buf.is_empty() {
            Ok(())
        } else {
            self.flush_block()
        }
    }
    #[verifier::external_body]
    fn write_all(&mut self, buf: &[u8]) -> (r: io::Result<()>) { unimplemented!() }
}
} // verus!
fn main() {}
