use vstd::prelude::*;
verus! {
global size_of usize == 8;
#[derive(Structural, PartialEq, Eq, Clone, Copy)]
pub enum ErrorKind { InvalidInput, InvalidData, UnexpectedEof, Interrupted, Other }
pub mod io {
    use vstd::prelude::*;
    pub use super::ErrorKind;
    pub struct Error { pub k: ErrorKind }
    impl Error { pub fn new<E>(kind: ErrorKind, e: E) -> (r: Error) ensures r.k == kind { Error { k: kind } } }
    impl From<ErrorKind> for Error { fn from(k: ErrorKind) -> (r: Error) { Error { k } } }
    pub type Result<T> = core::result::Result<T, Error>;
    pub trait Write {
        spec fn bytes(&self) -> Seq<u8>;
        fn write_all(&mut self, buf: &[u8]) -> (r: Result<()>)
            ensures r.is_ok() ==> final(self).bytes() == old(self).bytes() + buf@;
    }
}
use io::Write;
pub type BStr = [u8];
pub type BString = Vec<u8>;

const BACKSLASH: u8 = b'\\';
const QUOTATION_MARK: u8 = b'"';

pub open spec fn esc_body(s: Seq<u8>) -> Seq<u8> decreases s.len() {
    if s.len() == 0 { seq![] }
    else if s[0] == 92u8 || s[0] == 34u8 { seq![92u8, s[0]] + esc_body(s.subrange(1, s.len() as int)) }
    else { seq![s[0]] + esc_body(s.subrange(1, s.len() as int)) }
}

fn write_escaped_string<W>(writer: &mut W, s: &BStr) -> io::Result<()>
where
    W: Write,
{
    writer.write_all(&[QUOTATION_MARK])?;

    for c in s.iter() {
        let c = *c;
        if matches!(c, BACKSLASH | QUOTATION_MARK) {
            writer.write_all(&[BACKSLASH])?;
        }

        writer.write_all(&[c])?;
    }

    writer.write_all(&[QUOTATION_MARK])?;

    Ok(())
}

fn unescape_string(s: &[u8]) -> io::Result<BString> {
    const QUOTATION_MARK: u8 = b'"';

    enum State {
        Normal,
        Escape,
    }

    let mut dst = Vec::with_capacity(s.len());
    let mut state = State::Normal;

    for c in s.iter() {
        let c = *c;
        match state {
            State::Normal => {
                if c == BACKSLASH {
                    state = State::Escape;
                } else {
                    dst.push(c);
                }
            }
            State::Escape => {
                match c {
                    BACKSLASH | QUOTATION_MARK => dst.push(c),
                    _ => {
                        return Err(io::Error::new(
                            io::ErrorKind::InvalidData,
                            "invalid escape sequence",
                        ));
                    }
                }

                state = State::Normal;
            }
        }
    }

    Ok(dst.into())
}
}
fn main(){}
