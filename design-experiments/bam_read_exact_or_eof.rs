use vstd::prelude::*;
verus! {
global size_of usize == 8;

#[derive(Structural, PartialEq, Eq, Clone, Copy)]
pub enum ErrorKind { InvalidInput, InvalidData, UnexpectedEof, Interrupted, Other }
pub mod io {
    use vstd::prelude::*;
    pub use super::ErrorKind;
    pub struct Error { pub k: ErrorKind }
    impl Error {
        pub fn new<E>(kind: ErrorKind, e: E) -> (r: Error) ensures r.k == kind { Error { k: kind } }
        pub fn kind(&self) -> (r: ErrorKind) ensures r == self.k { self.k }
    }
    pub type Result<T> = core::result::Result<T, Error>;

    pub trait Read {
        spec fn remaining(&self) -> Seq<u8>;
        spec fn budget(&self) -> nat;
        spec fn errored(&self) -> bool; // ghost: the source itself reported a hard error   // ghost: how many more Interrupted may occur
        fn read(&mut self, buf: &mut [u8]) -> (r: Result<usize>)
            ensures
                final(buf)@.len() == old(buf)@.len(),
                match r {
                    Ok(n) => n <= old(buf)@.len() && n <= old(self).remaining().len()
                        && (n == 0 ==> old(buf)@.len() == 0 || old(self).remaining().len() == 0)
                        && final(buf)@ == old(self).remaining().subrange(0, n as int) + old(buf)@.subrange(n as int, old(buf)@.len() as int)
                        && final(self).remaining() == old(self).remaining().subrange(n as int, old(self).remaining().len() as int)
                        && final(self).budget() == old(self).budget() && final(self).errored() == old(self).errored(),
                    Err(e) => final(buf)@ == old(buf)@ && final(self).remaining() == old(self).remaining()
                        && (e.k == ErrorKind::Interrupted ==> final(self).budget() < old(self).budget() && final(self).errored() == old(self).errored())
                        && (e.k != ErrorKind::Interrupted ==> final(self).errored()),
                };
    }
}
use io::Read;

#[verifier::loop_isolation(false)]
#[verifier::allow_complex_invariants]
fn read_exact_or_eof<R>(reader: &mut R, mut buf: &mut [u8]) -> (r: io::Result<()>)
where
    R: Read,
    requires old(buf)@.len() <= usize::MAX,   // Rust slice type invariant
    ensures
        r.is_ok() ==> ({ let rem0 = old(reader).remaining(); let n = old(buf)@.len();
              (rem0.len() >= n && final(reader).remaining() == rem0.subrange(n as int, rem0.len() as int) && final(buf)@ == rem0.subrange(0, n as int))
           || (rem0.len() == 0 && n > 0 && final(buf)@ == old(buf)@ && final(reader).remaining() == rem0) }),
        r.is_err() ==> ({ let rem0 = old(reader).remaining(); let n = old(buf)@.len();
              final(reader).errored() || (r.unwrap_err().k == io::ErrorKind::UnexpectedEof && 0 < rem0.len() < n) }),
{
    let mut bytes_read = 0;
    let ghost rem0 = reader.remaining();
    let ghost n0 = buf@.len();
    let ghost b0 = buf@;

    while !buf.is_empty()
        invariant
            bytes_read <= n0, bytes_read <= rem0.len(),
            buf@.len() == n0 - bytes_read,
            reader.remaining() == rem0.subrange(bytes_read as int, rem0.len() as int),
            buf@ == b0.subrange(bytes_read as int, n0 as int),
            final(old(buf))@ == rem0.subrange(0, bytes_read as int) + final(buf)@,
        ensures buf@.len() == 0 || reader.remaining().len() == 0,
        decreases buf@.len(), reader.budget()
    {
        let ghost len_before = buf@.len();
        let ghost bud_before = reader.budget();
        match reader.read(buf) {
            Ok(0) => break,
            Ok(n) => {
                proof { assert(n <= len_before); assert(buf@.len() == len_before); assert(n > 0); }
                buf = &mut buf[n..];
                proof { assert(buf@.len() == len_before - n); }
                bytes_read += n;
            }
            Err(ref e) if e.kind() == io::ErrorKind::Interrupted => { proof { assert(reader.budget() < bud_before); assert(buf@.len() == len_before); } }
            Err(e) => return Err(e),
        }
    }

    if bytes_read > 0 && !buf.is_empty() {
        Err(io::Error::new(
            io::ErrorKind::UnexpectedEof,
            "failed to fill whole buffer",
        ))
    } else {
        Ok(())
    }
}

} // verus!
fn main() {}
