use vstd::prelude::*;
use vstd::arithmetic::power2::*;
use vstd::arithmetic::div_mod::*;
use vstd::bits::*;
use vstd::std_specs::convert::*;
verus! {
global size_of usize == 8;

// ---------------- model: noodles_core::Position ----------------
pub struct Position(usize);
impl Position {
    pub closed spec fn v(self) -> usize { self.0 }
    pub open spec fn wf(self) -> bool { self.v() >= 1 }
}
impl FromSpecImpl<Position> for usize {
    open spec fn obeys_from_spec() -> bool { true }
    open spec fn from_spec(p: Position) -> usize { p.v() }
}
impl From<Position> for usize {
    fn from(p: Position) -> (r: usize) { p.0 }
}

// ---------------- model: bit_vec::BitVec ----------------
#[verifier::external_body]
pub struct BitVec { inner: Vec<bool> }
impl BitVec {
    pub uninterp spec fn view(&self) -> Seq<bool>;
    #[verifier::external_body]
    pub fn set(&mut self, i: usize, x: bool)
        requires i < old(self).view().len()
        ensures final(self).view() == old(self).view().update(i as int, x)
    { self.inner[i] = x; }
}

pub assume_specification [<i32 as core::convert::From<u8>>::from] (x: u8) -> (r: i32) ensures r == x as i32;
// ---------------- spec ----------------
pub open spec fn pow8(l: nat) -> nat { pow2(3 * l) }
pub open spec fn level_offset(l: nat) -> nat { ((pow8(l) - 1) / 7) as nat }
pub open spec fn level_shift(min_shift: nat, depth: nat, l: nat) -> nat { (min_shift + 3 * (depth - l)) as nat }
pub open spec fn bin_at(x: nat, min_shift: nat, depth: nat, l: nat) -> nat {
    level_offset(l) + x / pow2(level_shift(min_shift, depth, l))
}
// deepest level l <= from at which beg and end fall in the same bin; level 0 otherwise
pub open spec fn spec_reg2bin(beg: nat, end: nat, min_shift: nat, depth: nat, from: nat) -> nat
    decreases from
{
    if from == 0 { 0 }
    else if beg / pow2(level_shift(min_shift, depth, from)) == end / pow2(level_shift(min_shift, depth, from)) {
        bin_at(beg, min_shift, depth, from)
    } else { spec_reg2bin(beg, end, min_shift, depth, (from - 1) as nat) }
}
pub open spec fn geometry_ok(min_shift: u8, depth: u8) -> bool {
    min_shift >= 1 && depth <= 10 && min_shift as int + 3 * depth as int <= 62
}

// ---------------- arithmetic lemmas ----------------
proof fn lemma_shr(x: usize, s: nat)
    requires s < 64
    ensures (x >> (s as usize)) as nat == (x as nat) / pow2(s)
{
    lemma_u64_shr_is_div(x as u64, s as u64);
    let su = s as usize; let s64 = s as u64; let x64 = x as u64;
    assert(su as u64 == s64);
    assert((x >> su) as u64 == (x as u64) >> (su as u64)) by (bit_vector) requires su < 64;
}
proof fn lemma_shl1(k: nat)
    requires k < 63
    ensures (1usize << (k as usize)) as nat == pow2(k)
{
    lemma_pow2_strictly_increases(k, 64);
    lemma2_to64();
    assert(pow2(64) == 0x1_0000_0000_0000_0000) by { lemma2_to64_rest(); }
    lemma_u64_shl_is_mul(1u64, k as u64);
    let ku = k as usize;
    assert((1usize << ku) as u64 == 1u64 << (ku as u64)) by (bit_vector) requires ku < 63;
}


proof fn lemma_offset_step(l: nat)
    requires l >= 1
    ensures level_offset(l) == level_offset((l - 1) as nat) + pow8((l - 1) as nat),
            pow8(l) == 8 * pow8((l - 1) as nat),
{
    let m = (l - 1) as nat;
    lemma_pow2_adds(3 * m, 3);
    lemma2_to64();
    assert(pow8(l) == pow8(m) * 8);
    lemma_pow8_mod7(m);
    // (8p - 1)/7 == (p-1)/7 + p  when p % 7 == 1
    let p = pow8(m) as int;
    assert((8 * p - 1) == 7 * p + (p - 1));
    assert((p - 1) % 7 == 0 && (8 * p - 1) / 7 == (p - 1) / 7 + p) by (nonlinear_arith) requires p % 7 == 1, p >= 1;
}
proof fn lemma_pow8_mod7(l: nat)
    ensures pow8(l) % 7 == 1, pow8(l) >= 1
    decreases l
{
    lemma2_to64();
    if l == 0 { } else {
        lemma_pow8_mod7((l - 1) as nat);
        lemma_pow2_adds(3 * ((l - 1) as nat), 3);
        let p = pow8((l-1) as nat) as int;
        assert(pow8(l) == p * 8);
        assert((p * 8) % 7 == 1) by (nonlinear_arith) requires p % 7 == 1;
    }
}

// `CSIv1.pdf` (2020-07-21)
#[verifier::loop_isolation(false)]
fn reg2bin(start: Position, end: Position, min_shift: u8, depth: u8) -> (r: usize)
    requires start.wf(), end.wf(), start.v() <= end.v(), geometry_ok(min_shift, depth),
    ensures r as nat == spec_reg2bin((start.v() - 1) as nat, (end.v() - 1) as nat, min_shift as nat, depth as nat, depth as nat),
{
    let ghost end0 = end;
    // [beg, end), 0-based
    let beg = usize::from(start) - 1;
    let end = usize::from(end);

    let end = end - 1;
    let mut l = depth;
    let mut s = min_shift;
    proof { lemma_shl1(3 * depth as nat); lemma_pow2_pos(3 * depth as nat); }
    let mut t = ((1 << (depth * 3)) - 1) / 7;

    while l > 0
        invariant
            l <= depth, geometry_ok(min_shift, depth),
            beg as nat == (start.v() - 1) as nat, end as nat == (end0.v() - 1) as nat,
            s as nat == level_shift(min_shift as nat, depth as nat, l as nat),
            t as nat == level_offset(l as nat),
            spec_reg2bin(beg as nat, end as nat, min_shift as nat, depth as nat, depth as nat)
                == spec_reg2bin(beg as nat, end as nat, min_shift as nat, depth as nat, l as nat),
        decreases l
    {
        proof {
            lemma_shr(beg, s as nat); lemma_shr(end, s as nat);
            assert(beg >> s == beg >> (s as usize));
            assert(end >> s == end >> (s as usize));
            assert((beg >> s) as nat == beg as nat / pow2(s as nat));
            
            lemma_offset_step(l as nat);
            lemma_shl1(3 * (l - 1) as nat);
            lemma_level_offset_bound(l as nat);
            lemma_bin_bound(beg, s as nat);
            assert(spec_reg2bin(beg as nat, end as nat, min_shift as nat, depth as nat, l as nat) ==
                if (beg as nat) / pow2(s as nat) == (end as nat) / pow2(s as nat) { bin_at(beg as nat, min_shift as nat, depth as nat, l as nat) }
                else { spec_reg2bin(beg as nat, end as nat, min_shift as nat, depth as nat, (l - 1) as nat) });
            lemma2_to64(); lemma2_to64_rest();
            assert(level_offset(l as nat) <= pow2(34));
            assert((beg as nat) / pow2(s as nat) <= pow2(63));
            assert(pow2(34) + pow2(63) < pow2(64));
        }
        if beg >> s == end >> s {
            proof {
                assert((beg >> s) as nat == (beg as nat) / pow2(s as nat));
                assert((end >> s) as nat == (end as nat) / pow2(s as nat));
                assert((beg as nat) / pow2(s as nat) == (end as nat) / pow2(s as nat));
                assert(spec_reg2bin(beg as nat, end as nat, min_shift as nat, depth as nat, l as nat) == bin_at(beg as nat, min_shift as nat, depth as nat, l as nat));
                assert(bin_at(beg as nat, min_shift as nat, depth as nat, l as nat) == t + (beg >> s));
            }
            return t + (beg >> s);
        }

        l -= 1;
        s += 3;
        t -= 1 << (l * 3);
    }

    0
}
proof fn lemma_level_offset_bound(l: nat)
    requires l <= 11
    ensures level_offset(l) + pow8(l) <= pow2(34), pow8(l) <= pow2(33)
{
    lemma_pow8_mod7(l);
    lemma2_to64(); lemma2_to64_rest();
    if l < 11 { lemma_pow2_strictly_increases(3 * l, 33); }
}
proof fn lemma_bin_bound(x: usize, s: nat)
    requires s >= 1
    ensures (x as nat) / pow2(s) <= pow2(63)
{
    lemma2_to64(); lemma2_to64_rest();
    if s > 1 { lemma_pow2_strictly_increases(1, s); }
    assert(pow2(s) >= 2);
    lemma_div_is_ordered_by_denominator(x as int, 2, pow2(s) as int);
    assert((x as int) / 2 <= 0x8000_0000_0000_0000);
}

pub open spec fn in_level_range(id: nat, beg: nat, end: nat, min_shift: nat, depth: nat, l: nat) -> bool {
    bin_at(beg, min_shift, depth, l) <= id <= bin_at(end, min_shift, depth, l)
}
pub open spec fn marked(id: nat, beg: nat, end: nat, min_shift: nat, depth: nat, upto: nat) -> bool {
    exists|l: nat| l < upto && #[trigger] in_level_range(id, beg, end, min_shift, depth, l)
}

// `CSIv1.pdf` (2020-07-21)
#[allow(clippy::many_single_char_names)]
#[verifier::loop_isolation(false)]
fn reg2bins(start: Position, end: Position, min_shift: u8, depth: u8, bins: &mut BitVec)
    requires start.wf(), end.wf(), start.v() <= end.v(), geometry_ok(min_shift, depth),
        (end.v() as nat) <= pow2(min_shift as nat + 3 * depth as nat),   // end <= max_position + 1
        old(bins).view().len() == level_offset(depth as nat + 1),
    ensures
        final(bins).view().len() == old(bins).view().len(),
        forall|id: int| 0 <= id < final(bins).view().len() ==>
            (#[trigger] final(bins).view()[id] == (old(bins).view()[id]
                || marked(id as nat, (start.v() - 1) as nat, (end.v() - 1) as nat, min_shift as nat, depth as nat, depth as nat + 1))),
{
    // [beg, end), 0-based
    let beg = usize::from(start) - 1;
    let end = usize::from(end);

    let end = end - 1;
    let mut l = 0;
    let mut t = 0;
    let mut s = i32::from(min_shift) + i32::from(depth) * 3;

    proof { lemma2_to64(); }
    let ghost B = beg as nat; let ghost E = end as nat; let ghost ms = min_shift as nat; let ghost d = depth as nat;
    while l <= depth 
        invariant
            l <= depth + 1,
            s as int == min_shift as int + 3 * (depth as int - l as int),
            t as nat == level_offset(l as nat),
            bins.view().len() == old(bins).view().len(),
            forall|id: int| 0 <= id < bins.view().len() ==>
                (#[trigger] bins.view()[id] == (old(bins).view()[id] || marked(id as nat, B, E, ms, d, l as nat))),
        decreases depth + 1 - l
    {
        proof {
            lemma_shr(beg, s as nat); lemma_shr(end, s as nat);
            assert(beg >> s == beg >> (s as usize));
            assert(end >> s == end >> (s as usize));
            assert(s as nat == level_shift(ms, d, l as nat));
            lemma_offset_step((l + 1) as nat);
            lemma_shl1(3 * l as nat);
            lemma_level_offset_bound(l as nat);
            lemma_in_level(B, ms, d, l as nat); lemma_in_level(E, ms, d, l as nat);
            lemma_offset_mono((l + 1) as nat, (d + 1) as nat);
            lemma_pow2_pos(s as nat);
            lemma_div_is_ordered(B as int, E as int, pow2(s as nat) as int);
        }
        let b = t + (beg >> s);
        let e = t + (end >> s);
        let ghost bins0 = bins.view();

        for i in b..(e + 1) 
            invariant
                bins.view().len() == bins0.len(),
                forall|id: int| 0 <= id < bins.view().len() ==>
                    (#[trigger] bins.view()[id] == (bins0[id] || (b <= id < i))),
                e < bins0.len(), b <= e,
        {
            bins.set(i, true);
        }

        proof {
            let ln = l as nat;
            assert(b as nat == bin_at(B, ms, d, ln) && e as nat == bin_at(E, ms, d, ln));
            assert forall|id: int| 0 <= id < bins.view().len() implies
                (#[trigger] bins.view()[id] == (old(bins).view()[id] || marked(id as nat, B, E, ms, d, ln + 1))) by {
                let idn = id as nat;
                if marked(idn, B, E, ms, d, ln) {
                    let w = choose|w: nat| w < ln && #[trigger] in_level_range(idn, B, E, ms, d, w);
                    assert(w < ln + 1 && in_level_range(idn, B, E, ms, d, w));
                }
                if in_level_range(idn, B, E, ms, d, ln) { assert(ln < ln + 1); }
                if marked(idn, B, E, ms, d, ln + 1) {
                    let w = choose|w: nat| w < ln + 1 && #[trigger] in_level_range(idn, B, E, ms, d, w);
                    if w < ln { assert(marked(idn, B, E, ms, d, ln)); } else { assert(w == ln); }
                }
            }
        }
        s -= 3;
        t += 1 << (l * 3);
        l += 1;
    }
}

proof fn lemma_offset_mono(a: nat, b: nat)
    requires a <= b
    ensures level_offset(a) <= level_offset(b)
    decreases b - a
{
    if a < b { lemma_offset_mono(a, (b - 1) as nat); lemma_offset_step(b); }
}
proof fn lemma_in_level(x: nat, ms: nat, d: nat, l: nat)
    requires l <= d, x < pow2(ms + 3 * d)
    ensures x / pow2(level_shift(ms, d, l)) < pow8(l)
{
    let sh = level_shift(ms, d, l);
    lemma_pow2_adds(sh, 3 * l);
    lemma_pow2_pos(sh);
    assert(ms + 3 * d == sh + 3 * l);
    let a = pow2(sh) as int; let b = pow8(l) as int; let xi = x as int;
    assert(xi / a < b) by (nonlinear_arith) requires 0 <= xi < a * b, a > 0;
}

// ---- C17 sentence 1: a feature's bin is among the bins of every region that intersects it ----
proof fn lemma_reg2bin_level(beg: nat, end: nat, ms: nat, d: nat, from: nat)
    requires beg <= end, end < pow2(ms + 3 * d), from <= d
    ensures exists|l: nat| l <= from && spec_reg2bin(beg, end, ms, d, from) == #[trigger] bin_at(beg, ms, d, l)
        && beg / pow2(level_shift(ms, d, l)) == end / pow2(level_shift(ms, d, l))
    decreases from
{
    if from == 0 {
        lemma_in_level(beg, ms, d, 0); lemma_in_level(end, ms, d, 0); lemma2_to64();
        assert(spec_reg2bin(beg, end, ms, d, 0) == bin_at(beg, ms, d, 0));
    } else if beg / pow2(level_shift(ms, d, from)) == end / pow2(level_shift(ms, d, from)) {
        assert(spec_reg2bin(beg, end, ms, d, from) == bin_at(beg, ms, d, from));
    } else {
        lemma_reg2bin_level(beg, end, ms, d, (from - 1) as nat);
    }
}
proof fn lemma_containment(fb: nat, fe: nat, rb: nat, re: nat, ms: nat, d: nat)
    requires fb <= fe, rb <= re, fe < pow2(ms + 3 * d), re < pow2(ms + 3 * d),
        fb <= re, rb <= fe,           // closed intervals intersect
    ensures marked(spec_reg2bin(fb, fe, ms, d, d), rb, re, ms, d, d + 1)
{
    lemma_reg2bin_level(fb, fe, ms, d, d);
    let l = choose|l: nat| l <= d && spec_reg2bin(fb, fe, ms, d, d) == #[trigger] bin_at(fb, ms, d, l)
        && fb / pow2(level_shift(ms, d, l)) == fe / pow2(level_shift(ms, d, l));
    let p = pow2(level_shift(ms, d, l)) as int;
    lemma_pow2_pos(level_shift(ms, d, l));
    lemma_div_is_ordered(rb as int, fe as int, p);
    lemma_div_is_ordered(fb as int, re as int, p);
    assert(in_level_range(spec_reg2bin(fb, fe, ms, d, d), rb, re, ms, d, l));
}
} // verus!
fn main() {}
