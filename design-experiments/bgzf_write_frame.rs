use vstd::prelude::*;
verus! {
global size_of usize == 8;

// ---------- verification model of std::io (trusted) -------------
pub mod io {
    use vstd::prelude::*;
    pub enum ErrorKind { InvalidInput, InvalidData, UnexpectedEof, Interrupted, Other }
    pub struct Error { pub kind: ErrorKind }
    impl Error {
        pub fn new<E>(kind: ErrorKind, e: E) -> (r: Error) ensures r.kind == kind { Error { kind } }
    }
    pub type Result<T> = core::result::Result<T, Error>;

    pub trait Write {
        spec fn bytes(&self) -> Seq<u8>;
        // Contract of std::io::Write::write_all: on Ok exactly `buf` was appended;
        // on Err some prefix of `buf` was appended.
        fn write_all(&mut self, buf: &[u8]) -> (r: Result<()>)
            ensures
                r.is_ok() ==> final(self).bytes() == old(self).bytes() + buf@,
                r.is_err() ==> exists|k: int| 0 <= k <= buf@.len() && final(self).bytes() == old(self).bytes() + #[trigger] buf@.subrange(0, k);
    }
}
use io::Write;
pub trait VLeBytes<const N: usize>: Sized { 
    spec fn le_spec(self) -> Seq<u8>;
    fn v_to_le_bytes(self) -> (r: [u8; N]) ensures r@ == self.le_spec(); 
}
impl VLeBytes<2> for u16 {
    open spec fn le_spec(self) -> Seq<u8> { le16(self) }
    #[verifier::external_body]
    fn v_to_le_bytes(self) -> (r: [u8; 2]) { self.to_le_bytes() }
}
impl VLeBytes<4> for u32 {
    open spec fn le_spec(self) -> Seq<u8> { le32(self) }
    #[verifier::external_body]
    fn v_to_le_bytes(self) -> (r: [u8; 4]) { self.to_le_bytes() }
}

pub open spec fn le16(x: u16) -> Seq<u8> { seq![(x & 0xff) as u8, (x >> 8) as u8] }
pub open spec fn le32(x: u32) -> Seq<u8> { seq![(x & 0xff) as u8, ((x >> 8) & 0xff) as u8, ((x >> 16) & 0xff) as u8, ((x >> 24) & 0xff) as u8] }


pub mod gz {
pub const MAGIC_NUMBER: [u8; 2] = [0x1f, 0x8b];
pub const MTIME_NONE: u32 = 0;
pub const HEADER_SIZE: usize = 10;
pub const TRAILER_SIZE: usize = 8;
#[non_exhaustive]
pub enum CompressionMethod {
    Deflate = 8,
}
#[non_exhaustive]
pub enum OperatingSystem {
    Unknown = 255,
}
}
pub const GZIP_XLEN_SIZE: usize = 2;
pub const BGZF_XLEN: usize = 6;
pub const BGZF_HEADER_SIZE: usize = gz::HEADER_SIZE + GZIP_XLEN_SIZE + BGZF_XLEN;


pub open spec fn spec_header(block_size: int) -> Seq<u8> {
    seq![0x1fu8, 0x8b, 0x08, 0x04, 0, 0, 0, 0, 0x00, 0xff, 0x06, 0x00, 0x42, 0x43, 0x02, 0x00]
      + le16((block_size - 1) as u16)
}
pub open spec fn spec_trailer(crc: u32, isize: int) -> Seq<u8> { le32(crc) + le32(isize as u32) }
pub open spec fn spec_frame(cdata: Seq<u8>, crc: u32, isize: int) -> Seq<u8> {
    spec_header((18 + cdata.len() + 8) as int) + cdata + spec_trailer(crc, isize)
}
pub fn write_frame<W>(
    writer: &mut W,
    compressed_data: &[u8],
    crc32: u32,
    uncompressed_size: usize,
) -> (r: io::Result<usize>)
where
    W: Write,
    requires compressed_data@.len() <= usize::MAX - 26,
    ensures
        r matches Ok(bs) ==> bs == 26 + compressed_data@.len() && bs <= 65536 && uncompressed_size <= u32::MAX
            && final(writer).bytes() == old(writer).bytes() + spec_frame(compressed_data@, crc32, uncompressed_size as int),
{
    let block_size = BGZF_HEADER_SIZE + compressed_data.len() + gz::TRAILER_SIZE;
    write_header(writer, block_size)?;

    writer.write_all(compressed_data)?;

    write_trailer(writer, crc32, uncompressed_size)?;

    Ok(block_size)
}

fn write_header<W>(writer: &mut W, block_size: usize) -> (r: io::Result<()>)
where
    W: Write,
    requires block_size >= 1,
    ensures r.is_ok() ==> block_size <= 65536 && final(writer).bytes() == old(writer).bytes() + spec_header(block_size as int),
{
    const BGZF_FLG: u8 = 0x04; // FEXTRA
    const BGZF_XFL: u8 = 0x00; // none
    const BGZF_XLEN: u16 = 6;

    const BGZF_SI1: u8 = b'B';
    const BGZF_SI2: u8 = b'C';
    const BGZF_SLEN: u16 = 2;

    writer.write_all(&gz::MAGIC_NUMBER)?;
    write_u8(writer, gz::CompressionMethod::Deflate as u8)?;
    write_u8(writer, BGZF_FLG)?;
    write_u32_le(writer, gz::MTIME_NONE)?;
    write_u8(writer, BGZF_XFL)?;
    write_u8(writer, gz::OperatingSystem::Unknown as u8)?;
    write_u16_le(writer, BGZF_XLEN)?;

    write_u8(writer, BGZF_SI1)?;
    write_u8(writer, BGZF_SI2)?;
    write_u16_le(writer, BGZF_SLEN)?;

    let bsize = u16::try_from(block_size - 1)
        .map_err(|e| io::Error::new(io::ErrorKind::InvalidInput, e))?;
    write_u16_le(writer, bsize)?;

    proof {
        assert(0u32 & 0xff == 0 && (0u32 >> 8) & 0xff == 0 && (0u32 >> 16) & 0xff == 0 && (0u32 >> 24) & 0xff == 0) by (bit_vector);
        assert(6u16 & 0xff == 6 && 6u16 >> 8 == 0 && 2u16 & 0xff == 2 && 2u16 >> 8 == 0) by (bit_vector);
        assert(writer.bytes() =~= old(writer).bytes() + spec_header(block_size as int));
    }
    Ok(())
}

fn write_trailer<W>(writer: &mut W, checksum: u32, uncompressed_size: usize) -> (r: io::Result<()>)
where
    W: Write,
    ensures r.is_ok() ==> uncompressed_size <= u32::MAX && final(writer).bytes() == old(writer).bytes() + spec_trailer(checksum, uncompressed_size as int),
{
    write_u32_le(writer, checksum)?;

    let isize = u32::try_from(uncompressed_size)
        .map_err(|e| io::Error::new(io::ErrorKind::InvalidInput, e))?;
    write_u32_le(writer, isize)?;

    Ok(())
}

fn write_u8<W>(writer: &mut W, n: u8) -> (r: io::Result<()>)
where
    W: Write,
    ensures r.is_ok() ==> final(writer).bytes() == old(writer).bytes() + seq![n],
{
    writer.write_all(&[n])
}

fn write_u16_le<W>(writer: &mut W, n: u16) -> (r: io::Result<()>)
where
    W: Write,
    ensures r.is_ok() ==> final(writer).bytes() == old(writer).bytes() + le16(n),
{
    let buf = n.v_to_le_bytes();
    writer.write_all(&buf)
}

fn write_u32_le<W>(writer: &mut W, n: u32) -> (r: io::Result<()>)
where
    W: Write,
    ensures r.is_ok() ==> final(writer).bytes() == old(writer).bytes() + le32(n),
{
    let buf = n.v_to_le_bytes();
    writer.write_all(&buf)
}

} // verus!
fn main() {}
