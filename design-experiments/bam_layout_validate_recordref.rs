use vstd::prelude::*;
use core::ops::Range;
use core::mem;
verus! {
global size_of usize == 8;
#[derive(Structural, PartialEq, Eq, Clone, Copy)]
pub enum ErrorKind { InvalidInput, InvalidData, UnexpectedEof, Interrupted, Other }
pub mod io {
    use vstd::prelude::*;
    pub use super::ErrorKind;
    pub struct Error { pub k: ErrorKind }
    impl Error { pub fn new<E>(kind: ErrorKind, e: E) -> (r: Error) ensures r.k == kind { Error { k: kind } } }
    impl vstd::std_specs::convert::FromSpecImpl<ErrorKind> for Error {
        open spec fn obeys_from_spec() -> bool { true }
        open spec fn from_spec(k: ErrorKind) -> Error { Error { k } }
    }
    impl From<ErrorKind> for Error { fn from(k: ErrorKind) -> (r: Error) { Error { k } } }
    pub type Result<T> = core::result::Result<T, Error>;
}
// ---- R5 models (assumed == core, cross-checked by Kani) ----
pub open spec fn le16(b: Seq<u8>) -> u16 { (b[0] as u16) | (b[1] as u16) << 8 }
pub open spec fn le32(b: Seq<u8>) -> u32 { (b[0] as u32) | (b[1] as u32) << 8 | (b[2] as u32) << 16 | (b[3] as u32) << 24 }
#[verifier::external_body]
pub fn v_u16_from_le_slice(b: &[u8]) -> (r: u16) requires b@.len() == 2 ensures r == le16(b@) { u16::from_le_bytes(b.try_into().unwrap()) }
#[verifier::external_body]
pub fn v_u32_from_le_slice(b: &[u8]) -> (r: u32) requires b@.len() == 4 ensures r == le32(b@) { u32::from_le_bytes(b.try_into().unwrap()) }
pub assume_specification [usize::div_ceil] (x: usize, y: usize) -> (r: usize) requires y > 0 ensures r as int == (x as int + y as int - 1) / (y as int);

// ---- spec layout (SAM v1 §4.2), independent of the code ----
pub open spec fn l_read_name(b: Seq<u8>) -> int { b[8] as int }
pub open spec fn n_cigar_op(b: Seq<u8>) -> int { le16(b.subrange(12, 14)) as int }
pub open spec fn l_seq(b: Seq<u8>) -> int { le32(b.subrange(16, 20)) as int }
pub open spec fn var_end(b: Seq<u8>) -> int { 32 + l_read_name(b) + 4 * n_cigar_op(b) + (l_seq(b) + 1) / 2 + l_seq(b) }
pub open spec fn layout_ok(b: Seq<u8>) -> bool { b.len() >= 32 && var_end(b) <= b.len() }

pub fn validate(src: &[u8]) -> (r: io::Result<()>)
    ensures r.is_ok() <==> layout_ok(src@)
{
    const MIN_BUF_LENGTH: usize = 32;
    const NAME_LENGTH_INDEX: usize = 8;
    const CIGAR_OP_COUNT_RANGE: Range<usize> = 12..14;
    const READ_LENGTH_RANGE: Range<usize> = 16..20;

    if src.len() < MIN_BUF_LENGTH {
        return Err(io::Error::from(io::ErrorKind::UnexpectedEof));
    }

    let name_len = usize::from(src[NAME_LENGTH_INDEX]);

    let buf = &src[CIGAR_OP_COUNT_RANGE];
    // SAFETY: `buf.len() == mem::size_of::<u16>()`.
    let cigar_op_count = usize::from(v_u16_from_le_slice(buf));

    let buf = &src[READ_LENGTH_RANGE];
    // SAFETY: `buf.len() == mem::size_of::<u32>()`.
    let base_count = usize::try_from(v_u32_from_le_slice(buf))
        .map_err(|e| io::Error::new(io::ErrorKind::InvalidData, e))?;

    let quality_scores_end = MIN_BUF_LENGTH
        + name_len
        + (cigar_op_count * mem::size_of::<u32>())
        + base_count.div_ceil(2)
        + base_count;

    if src.len() < quality_scores_end {
        Err(io::Error::from(io::ErrorKind::UnexpectedEof))
    } else {
        Ok(())
    }
}

const NAME_LENGTH_INDEX: usize = 8;
const CIGAR_OP_COUNT_RANGE: Range<usize> = 12..14;
const READ_LENGTH_RANGE: Range<usize> = 16..20;
const HEAD_SIZE: usize = 32;

pub struct RecordRef<'a> {
    pub head: &'a [u8; HEAD_SIZE],
    pub rest: &'a [u8],
}
impl<'a> RecordRef<'a> {
    pub open spec fn whole(&self) -> Seq<u8> { self.head@ + self.rest@ }

    fn name_length(&self) -> (r: usize) ensures r == l_read_name(self.whole()) {
        let n = &self.head[NAME_LENGTH_INDEX];
        usize::from(*n)
    }

    fn cigar_op_count(&self) -> (r: usize) ensures r == n_cigar_op(self.whole()) {
        let src = &self.head[CIGAR_OP_COUNT_RANGE];
        // SAFETY: `src.len() == mem::size_of::<u16>()`.
        usize::from(v_u16_from_le_slice(src))
    }

    pub(crate) fn base_count(&self) -> (r: usize) ensures r == l_seq(self.whole()) {
        let src = &self.head[READ_LENGTH_RANGE];
        // SAFETY: `src.len() == mem::size_of::<u32>()`.
        let n = v_u32_from_le_slice(src);
        usize::try_from(n).unwrap()
    }

    fn raw_sequence(&self) -> (r: (&'a [u8], usize))
        requires layout_ok(self.whole())
        ensures r.1 == l_seq(self.whole()),
            r.0@ == self.whole().subrange(32 + l_read_name(self.whole()) + 4 * n_cigar_op(self.whole()), 32 + l_read_name(self.whole()) + 4 * n_cigar_op(self.whole()) + (l_seq(self.whole()) + 1) / 2)
    {
        let start = self.name_length() + (self.cigar_op_count() * mem::size_of::<u32>());

        let base_count = self.base_count();
        let sequence_len = base_count.div_ceil(2);
        let end = start + sequence_len;

        (&self.rest[start..end], base_count)
    }

    fn raw_data(&self) -> (r: &'a [u8])
        requires layout_ok(self.whole())
        ensures r@ == self.whole().subrange(var_end(self.whole()), self.whole().len() as int)
    {
        let base_count = self.base_count();

        let start = self.name_length()
            + (self.cigar_op_count() * mem::size_of::<u32>())
            + base_count.div_ceil(2)
            + base_count;

        &self.rest[start..]
    }
}
}
fn main(){}
