use vstd::prelude::*;
use vstd::std_specs::cmp::*;
use core::cmp::Ordering;
verus! {
pub mod bgzf {
use vstd::prelude::*;
use vstd::std_specs::cmp::*;
use core::cmp::Ordering;
#[derive(Clone, Copy, Debug, Default, PartialEq, Eq)]
pub struct VirtualPosition(pub u64);
impl VirtualPosition { pub open spec fn v(self) -> u64 { self.0 } }
impl PartialOrdSpecImpl for VirtualPosition {
    open spec fn obeys_partial_cmp_spec() -> bool { true }
    open spec fn partial_cmp_spec(&self, other: &VirtualPosition) -> Option<Ordering> {
        if self.v() < other.v() { Some(Ordering::Less) } else if self.v() == other.v() { Some(Ordering::Equal) } else { Some(Ordering::Greater) }
    }
}
impl OrdSpecImpl for VirtualPosition {
    open spec fn obeys_cmp_spec() -> bool { true }
    open spec fn cmp_spec(&self, other: &VirtualPosition) -> Ordering {
        if self.v() < other.v() { Ordering::Less } else if self.v() == other.v() { Ordering::Equal } else { Ordering::Greater }
    }
}
impl Ord for VirtualPosition {
    #[verifier::external_body]
    fn cmp(&self, other: &VirtualPosition) -> (r: Ordering) { self.0.cmp(&other.0) }
}
impl PartialOrd for VirtualPosition {
    #[verifier::external_body]
    fn partial_cmp(&self, other: &VirtualPosition) -> (r: Option<Ordering>) { self.0.partial_cmp(&other.0) }
}
}

#[derive(Clone, Copy, Debug, Eq, PartialEq)]
pub struct Chunk {
    pub start: bgzf::VirtualPosition,
    pub end: bgzf::VirtualPosition,
}
impl Chunk {
    pub fn new(start: bgzf::VirtualPosition, end: bgzf::VirtualPosition) -> (r: Self) ensures r.start == start, r.end == end {
        Self { start, end }
    }
    pub fn start(&self) -> (r: bgzf::VirtualPosition) ensures r == self.start {
        self.start
    }
    pub fn end(&self) -> (r: bgzf::VirtualPosition) ensures r == self.end {
        self.end
    }
}


pub open spec fn covers(o: Chunk, c: Chunk) -> bool { o.start.v() <= c.start.v() && c.end.v() <= o.end.v() }
pub open spec fn sorted_by_start(s: Seq<Chunk>) -> bool { forall|i: int, j: int| 0 <= i <= j < s.len() ==> s[i].start.v() <= s[j].start.v() }
pub open spec fn covered_by(out: Seq<Chunk>, c: Chunk) -> bool { exists|j: int| 0 <= j < out.len() && #[trigger] covers(out[j], c) }
pub open spec fn disjoint_sorted(out: Seq<Chunk>) -> bool { forall|j: int, k: int| 0 <= j < k < out.len() ==> out[j].end.v() < out[k].start.v() }
pub open spec fn within_hull(o: Chunk, s: Seq<Chunk>) -> bool {
    (exists|a: int| 0 <= a < s.len() && s[a].start == o.start) && (exists|b: int| 0 <= b < s.len() && s[b].end == o.end)
}

// R6 helpers: the two statements Verus cannot digest, with the contract of exactly that statement
#[verifier::external_body]
fn r6_filter(chunks: &[Chunk], min_offset: bgzf::VirtualPosition) -> (r: Vec<Chunk>)
    ensures
        forall|i: int| 0 <= i < chunks@.len() && chunks@[i].end.v() > min_offset.v() ==> r@.contains(#[trigger] chunks@[i]),
        forall|k: int| 0 <= k < r@.len() ==> chunks@.contains(#[trigger] r@[k]) && r@[k].end.v() > min_offset.v(),
{ chunks.iter().filter(|c| c.end() > min_offset).copied().collect() }
#[verifier::external_body]
fn r6_sort(chunks: &mut Vec<Chunk>)
    ensures sorted_by_start(final(chunks)@), final(chunks)@.to_multiset() == old(chunks)@.to_multiset(), final(chunks)@.len() == old(chunks)@.len()
{ chunks.sort_unstable_by_key(|c| c.start()); }

#[verifier::loop_isolation(false)]
pub fn optimize_chunks(chunks: &[Chunk], min_offset: bgzf::VirtualPosition) -> (r: Vec<Chunk>)
    ensures
        // nothing that could hold a wanted record is uncovered
        forall|i: int| 0 <= i < chunks@.len() && chunks@[i].end.v() > min_offset.v() ==> covered_by(r@, #[trigger] chunks@[i]),
        // output is sorted and pairwise non-overlapping (strictly separated)
        disjoint_sorted(r@),
{
    let ghost input = chunks@;
    let mut chunks: Vec<_> = r6_filter(chunks, min_offset);

    if chunks.is_empty() {
        return chunks;
    }

    let ghost filtered = chunks@;
    r6_sort(&mut chunks);
    proof {
        assert forall|k: int| 0 <= k < chunks@.len() implies filtered.contains(#[trigger] chunks@[k]) by {
            chunks@.to_multiset_ensures(); filtered.to_multiset_ensures();
            assert(chunks@.to_multiset().count(chunks@[k]) > 0);
        }
        assert forall|k: int| 0 <= k < filtered.len() implies chunks@.contains(#[trigger] filtered[k]) by {
            chunks@.to_multiset_ensures(); filtered.to_multiset_ensures();
            assert(filtered.to_multiset().count(filtered[k]) > 0);
        }
    }

    // At worst, no chunks are merged, and the resulting list will be the same size as the input.
    let mut merged_chunks = Vec::with_capacity(chunks.len());

    // `chunks` is guaranteed to be non-empty.
    let mut current_chunk = chunks[0];

    for next_chunk in it: chunks.iter().skip(1) 
        invariant
            chunks@.len() > 0,
            // every processed chunk is covered by the emitted chunks or the open one
            forall|i: int| 0 <= i < it.index() + 1 ==> covered_by(merged_chunks@, #[trigger] chunks@[i]) || covers(current_chunk, chunks@[i]),
            disjoint_sorted(merged_chunks@),
            forall|j: int| 0 <= j < merged_chunks@.len() ==> (#[trigger] merged_chunks@[j]).end.v() < current_chunk.start.v(),
            exists|a: int| 0 <= a < it.index() + 1 && chunks@[a].start == current_chunk.start,
            sorted_by_start(chunks@),
    {
        proof {
            assert(*next_chunk == chunks@[it.index() + 1]);
            let k = it.index() + 1;
            assert forall|i: int| 0 <= i < k implies chunks@[i].start.v() <= chunks@[k].start.v() by {}
        }
        let ghost prev_merged = merged_chunks@;
        let ghost prev_cur = current_chunk;
        let ghost a0 = choose|a: int| 0 <= a < it.index() + 1 && chunks@[a].start == current_chunk.start;
        if next_chunk.start() > current_chunk.end() {
            merged_chunks.push(current_chunk);
            current_chunk = *next_chunk;
        } else if current_chunk.end() < next_chunk.end() {
            current_chunk = Chunk::new(current_chunk.start(), next_chunk.end());
        }
        proof {
            let k = it.index() + 1;
            let nx = chunks@[k];
            assert(chunks@[a0].start.v() <= nx.start.v());
            if nx.start.v() > prev_cur.end.v() {
                assert(current_chunk == nx);
                assert(merged_chunks@ == prev_merged.push(prev_cur));
                assert(chunks@[k].start == current_chunk.start);
            } else {
                assert(merged_chunks@ == prev_merged);
                assert(chunks@[a0].start == current_chunk.start);
                assert(covers(current_chunk, nx));
            }
            assert forall|i: int| 0 <= i < k + 1 implies covered_by(merged_chunks@, #[trigger] chunks@[i]) || covers(current_chunk, chunks@[i]) by {
                if i < k {
                    if covered_by(prev_merged, chunks@[i]) {
                        let j = choose|j: int| 0 <= j < prev_merged.len() && #[trigger] covers(prev_merged[j], chunks@[i]);
                        assert(covers(merged_chunks@[j], chunks@[i]));
                    } else {
                        assert(covers(prev_cur, chunks@[i]));
                        if merged_chunks@.len() > prev_merged.len() {
                            assert(covers(merged_chunks@[prev_merged.len() as int], chunks@[i]));
                        }
                    }
                }
            }
        }
    }

    let ghost prev_merged = merged_chunks@;
    merged_chunks.push(current_chunk);
    proof {
        assert forall|i: int| 0 <= i < chunks@.len() implies covered_by(merged_chunks@, #[trigger] chunks@[i]) by {
            if covered_by(prev_merged, chunks@[i]) {
                let j = choose|j: int| 0 <= j < prev_merged.len() && #[trigger] covers(prev_merged[j], chunks@[i]);
                assert(covers(merged_chunks@[j], chunks@[i]));
            } else {
                assert(covers(merged_chunks@[prev_merged.len() as int], chunks@[i]));
            }
        }
        assert forall|i: int| 0 <= i < input.len() && input[i].end.v() > min_offset.v() implies covered_by(merged_chunks@, #[trigger] input[i]) by {
            assert(filtered.contains(input[i]));
            let k = choose|k: int| 0 <= k < filtered.len() && filtered[k] == input[i];
            assert(chunks@.contains(filtered[k]));
            let m = choose|m: int| 0 <= m < chunks@.len() && chunks@[m] == filtered[k];
            assert(covered_by(merged_chunks@, chunks@[m]));
        }
    }

    merged_chunks
}
}
fn main(){}
