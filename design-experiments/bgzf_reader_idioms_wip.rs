use vstd::prelude::*;
verus! {
global size_of usize == 8;
#[derive(Structural, PartialEq, Eq, Clone, Copy)]
pub enum ErrorKind { InvalidInput, InvalidData, UnexpectedEof, Interrupted, Other }
pub mod io {
    use vstd::prelude::*;
    pub use super::ErrorKind;
    pub struct Error { pub k: ErrorKind }
    pub type Result<T> = core::result::Result<T, Error>;
    pub trait Read {
        spec fn remaining(&self) -> Seq<u8>;
    }
}
use io::Read;
pub const BGZF_MAX_ISIZE: usize = 65536;

pub struct Data {
    buf: Box<[u8; BGZF_MAX_ISIZE]>,
    pos: usize,
    len: usize,
}

impl Data {
    pub fn has_remaining(&self) -> bool {
        self.pos < self.len
    }

    pub fn position(&self) -> usize {
        self.pos
    }

    pub fn set_position(&mut self, position: usize) {
        self.pos = position;
    }

    pub fn len(&self) -> usize {
        self.len
    }

    pub fn resize(&mut self, len: usize) {
        self.len = len;
    }

    pub fn consume(&mut self, amt: usize) {
        self.pos = (self.pos + amt).min(self.len);
    }
}

impl AsRef<[u8]> for Data {
    fn as_ref(&self) -> &[u8] {
        &self.buf[self.pos..self.len]
    }
}

impl AsMut<[u8]> for Data {
    fn as_mut(&mut self) -> &mut [u8] {
        &mut self.buf[self.pos..self.len]
    }
}

pub struct Block {
    pos: u64,
    size: u64,
    data: Data,
}
impl Block {
    pub fn set_position(&mut self, position: u64) {
        self.pos = position;
    }
    pub fn size(&self) -> u64 {
        self.size
    }
    pub fn data(&self) -> &Data {
        &self.data
    }
    pub fn data_mut(&mut self) -> &mut Data {
        &mut self.data
    }
}

#[verifier::external_body]
pub fn read_frame_into<R: Read>(reader: &mut R, buf: &mut Vec<u8>) -> io::Result<Option<()>> { unimplemented!() }
#[verifier::external_body]
pub fn parse_block(src: &[u8], block: &mut Block) -> io::Result<()> { unimplemented!() }

pub struct Reader<R> {
    inner: R,
    buf: Vec<u8>,
    position: u64,
    block: Block,
}

impl<R> Reader<R>
where
    R: Read,
{
    fn read_nonempty_block_with<F>(&mut self, mut f: F) -> io::Result<usize>
    where
        F: FnMut(&[u8], &mut Block) -> io::Result<()>,
    {
        while read_frame_into(&mut self.inner, &mut self.buf)?.is_some() {
            f(&self.buf, &mut self.block)?;

            self.block.set_position(self.position);
            self.position += self.block.size();

            if self.block.data().len() > 0 {
                break;
            }
        }

        Ok(self.block.data().len())
    }

    fn read_block(&mut self) -> io::Result<usize> {
        self.read_nonempty_block_with(parse_block)
    }
}
}
fn main(){}
