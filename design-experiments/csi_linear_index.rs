use vstd::prelude::*;
use vstd::std_specs::convert::*;
verus! {
global size_of usize == 8;
pub struct Position(pub usize);
impl Position { pub open spec fn v(self) -> usize { self.0 } pub open spec fn wf(self) -> bool { self.v() >= 1 } }
impl FromSpecImpl<Position> for usize {
    open spec fn obeys_from_spec() -> bool { true }
    open spec fn from_spec(p: Position) -> usize { p.v() }
}
impl From<Position> for usize { fn from(p: Position) -> (r: usize) { p.0 } }

pub mod bgzf {
    use vstd::prelude::*;
    #[derive(Clone, Copy, Debug, PartialEq, Eq)]
    pub struct VirtualPosition(pub u64);
    impl VirtualPosition { pub open spec fn v(self) -> u64 { self.0 } }
    impl Default for VirtualPosition { fn default() -> (r: Self) ensures r.v() == 0 { VirtualPosition(0) } }
}
#[derive(Clone, Copy, Debug, Eq, PartialEq)]
pub struct Chunk { pub start: bgzf::VirtualPosition, pub end: bgzf::VirtualPosition }
impl Chunk {
    pub fn start(&self) -> (r: bgzf::VirtualPosition) ensures r == self.start { self.start }
}

pub assume_specification<'a, T: Copy> [Option::<&'a T>::copied] (o: Option<&'a T>) -> (r: Option<T>)
    ensures o.is_some() ==> r == Some(*o.unwrap()), o.is_none() ==> r.is_none();
pub type LinearIndex = Vec<bgzf::VirtualPosition>;
const WINDOW_SIZE: usize = 1 << 14;

pub open spec fn window(p: usize) -> int { (p - 1) / 16384 }
// a recorded update: (end position, record start offset)
pub struct Upd { pub end: usize, pub vstart: u64 }
// representation invariant of a linear index w.r.t. the history of updates that built it
pub open spec fn first_reaching(h: Seq<Upd>, w: int, k: int) -> bool {
    0 <= k < h.len() && window(h[k].end) >= w && forall|j: int| 0 <= j < k ==> window(#[trigger] h[j].end) < w
}
pub open spec fn window_ok(ix: Seq<bgzf::VirtualPosition>, h: Seq<Upd>, w: int) -> bool {
    exists|k: int| #[trigger] first_reaching(h, w, k) && h[k].vstart == ix[w].v()
}
pub open spec fn lin_inv(ix: Seq<bgzf::VirtualPosition>, h: Seq<Upd>) -> bool {
    // updates arrive in file order: offsets never decrease
    &&& forall|i: int, j: int| 0 <= i <= j < h.len() ==> (#[trigger] h[i]).vstart <= (#[trigger] h[j]).vstart
    &&& forall|k: int| 0 <= k < h.len() ==> window(#[trigger] h[k].end) < ix.len()
    &&& forall|w: int| 0 <= w < ix.len() ==> window_ok(ix, h, w)
}
pub trait Index {
    spec fn view_seq(&self) -> Seq<bgzf::VirtualPosition>;
    fn min_offset(&self, _0: u8, _1: u8, start: Position) -> (r: bgzf::VirtualPosition)
        requires start.wf()
        ensures r.v() == if window(start.v()) < self.view_seq().len() { self.view_seq()[window(start.v())].v() } else { 0 };
    fn update(&mut self, _0: u8, _1: u8, _2: Position, end: Position, chunk: Chunk)
        requires end.wf()
        ensures
            final(self).view_seq().len() == if window(end.v()) + 1 > old(self).view_seq().len() { window(end.v()) + 1 } else { old(self).view_seq().len() as int },
            forall|w: int| 0 <= w < old(self).view_seq().len() ==> final(self).view_seq()[w] == old(self).view_seq()[w],
            forall|w: int| old(self).view_seq().len() <= w < final(self).view_seq().len() ==> final(self).view_seq()[w] == chunk.start;
}

impl Index for LinearIndex {
    open spec fn view_seq(&self) -> Seq<bgzf::VirtualPosition> { self@ }
    fn min_offset(&self, _p0: u8, _p1: u8, start: Position) -> bgzf::VirtualPosition {
        proof { assert(1usize << 14 == 16384) by (bit_vector); }
        let i = (usize::from(start) - 1) / WINDOW_SIZE;
        self.get(i).copied().unwrap_or_default()
    }

    fn update(&mut self, _p0: u8, _p1: u8, _p2: Position, end: Position, chunk: Chunk) {
        proof { assert(1usize << 14 == 16384) by (bit_vector); }
        let end_index = (usize::from(end) - 1) / WINDOW_SIZE;
        let new_len = end_index + 1;

        if new_len > self.len() {
            self.resize(new_len, chunk.start());
        }
    }
}

// C04/C17: the linear offset is a lower bound for every indexed record that ends at or after `s`
proof fn lemma_linear_lower_bound(ix: Seq<bgzf::VirtualPosition>, h: Seq<Upd>, s: usize, k: int)
    requires lin_inv(ix, h), 0 <= k < h.len(), s >= 1, h[k].end >= s,
    ensures (if window(s) < ix.len() { ix[window(s)].v() } else { 0 }) <= h[k].vstart
{
    let w = window(s);
    assert(window(h[k].end) >= w) by (nonlinear_arith) requires h[k].end >= s, s >= 1, w == (s - 1) / 16384;
    assert(w < ix.len());
    assert(window_ok(ix, h, w));
    let k0 = choose|k0: int| #[trigger] first_reaching(h, w, k0) && h[k0].vstart == ix[w].v();
    if k0 > k { assert(window(h[k].end) < w); }
}

proof fn lemma_update_preserves(ix: Seq<bgzf::VirtualPosition>, h: Seq<Upd>, ix2: Seq<bgzf::VirtualPosition>, u: Upd)
    requires lin_inv(ix, h), u.end >= 1,
        forall|i: int| 0 <= i < h.len() ==> (#[trigger] h[i]).vstart <= u.vstart,
        // exactly the postcondition of `update`
        ix2.len() == if window(u.end) + 1 > ix.len() { window(u.end) + 1 } else { ix.len() as int },
        forall|w: int| 0 <= w < ix.len() ==> ix2[w] == ix[w],
        forall|w: int| ix.len() <= w < ix2.len() ==> (#[trigger] ix2[w]).v() == u.vstart,
    ensures lin_inv(ix2, h.push(u))
{
    let h2 = h.push(u);
    assert forall|w: int| 0 <= w < ix2.len() implies window_ok(ix2, h2, w) by {
        if w < ix.len() {
            assert(window_ok(ix, h, w));
            let k = choose|k: int| #[trigger] first_reaching(h, w, k) && h[k].vstart == ix[w].v();
            assert(first_reaching(h2, w, k)) by { assert forall|j: int| 0 <= j < k implies window(#[trigger] h2[j].end) < w by { assert(h2[j] == h[j]); } }
            assert(h2[k].vstart == ix2[w].v());
        } else {
            let k = h.len() as int;
            assert(first_reaching(h2, w, k)) by { assert forall|j: int| 0 <= j < k implies window(#[trigger] h2[j].end) < w by { assert(h2[j] == h[j]); } }
            assert(h2[k].vstart == ix2[w].v());
        }
    }
    assert forall|i: int, j: int| 0 <= i <= j < h2.len() implies (#[trigger] h2[i]).vstart <= (#[trigger] h2[j]).vstart by {
        if j < h.len() { assert(h2[i] == h[i] && h2[j] == h[j]); } else if i < h.len() { assert(h2[i] == h[i]); }
    }
    assert forall|k: int| 0 <= k < h2.len() implies window(#[trigger] h2[k].end) < ix2.len() by {
        if k < h.len() { assert(h2[k] == h[k]); }
    }
}
}
fn main(){}
