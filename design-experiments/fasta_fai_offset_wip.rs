use vstd::prelude::*;
verus! {
// byte offset (relative to the first base) of 0-based base k in a sequence laid out in lines of `lb` bases
// occupying `lw >= lb` bytes each (terminator included)
pub open spec fn offset_of_base(k: nat, lb: nat, lw: nat) -> nat { (k / lb) * lw + k % lb }

// naive layout model: walk base by base
pub open spec fn naive_offset(k: nat, lb: nat, lw: nat) -> nat decreases k {
    if k == 0 { 0 }
    else if k % lb == 0 { (naive_offset((k - 1) as nat, lb, lw) + 1 + (lw - lb)) as nat }   // crossed a line terminator
    else { naive_offset((k - 1) as nat, lb, lw) + 1 }
}
proof fn lemma_offset(k: nat, lb: nat, lw: nat)
    requires lb >= 1, lw >= lb
    ensures offset_of_base(k, lb, lw) == naive_offset(k, lb, lw)
    decreases k
{
    if k > 0 {
        lemma_offset((k - 1) as nat, lb, lw);
        let j = (k - 1) as nat;
        if k % lb == 0 {
            assert(j / lb == k / lb - 1 && j % lb == lb - 1) by (nonlinear_arith) requires k % lb == 0, k >= 1, lb >= 1, j == k - 1;
            assert((k / lb) * lw == (k / lb - 1) * lw + lw) by (nonlinear_arith);
        } else {
            assert(j / lb == k / lb && j % lb == k % lb - 1) by (nonlinear_arith) requires k % lb != 0, k >= 1, lb >= 1, j == k - 1;
        }
    }
}
fn query_core(position: u64, start: u64, line_base_count: u64, line_width: u64) -> (pos: u64)
    requires line_base_count >= 1, line_width >= line_base_count,
        position + (start / line_base_count) * line_width + line_base_count <= u64::MAX,
    ensures pos == position + offset_of_base(start as nat, line_base_count as nat, line_width as nat)
{
    assert((start / line_base_count) * line_width <= u64::MAX) ;
    let pos = position + start / line_base_count * line_width + start % line_base_count;
    pos
}
}
fn main(){}
