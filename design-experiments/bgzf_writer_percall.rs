use vstd::prelude::*;
verus! {
global size_of usize == 8;
#[derive(Structural, PartialEq, Eq, Clone, Copy)]
pub enum ErrorKind { InvalidInput, InvalidData, UnexpectedEof, Interrupted, Other }
pub mod io {
    use vstd::prelude::*;
    pub use super::ErrorKind;
    pub struct Error { pub k: ErrorKind }
    pub type Result<T> = core::result::Result<T, Error>;
    // model of std::io::Write for the SINK (trusted contract of std)
    pub trait Write {
        spec fn bytes(&self) -> Seq<u8>;
        spec fn failed(&self) -> bool;
        fn write_all(&mut self, buf: &[u8]) -> (r: Result<()>)
            ensures
                r.is_ok() ==> final(self).bytes() == old(self).bytes() + buf@ && final(self).failed() == old(self).failed(),
                r.is_err() ==> final(self).failed();
    }
}
use io::Write;

pub const MAX_BUF_SIZE: usize = 65495;
pub const BGZF_EOF: [u8; 28] = [
    0x1f, 0x8b, 0x08, 0x04, 0x00, 0x00, 0x00, 0x00, 0x00, 0xff, 0x06, 0x00, 0x42, 0x43, 0x02, 0x00, 0x1b, 0x00, 0x03, 0x00, 0x00, 0x00, 0x00, 0x00, 0x00, 0x00, 0x00, 0x00,
];
pub type CompressionLevelImpl = i32;

pub uninterp spec fn spec_inflate(c: Seq<u8>) -> Seq<u8>;
pub uninterp spec fn spec_crc32(c: Seq<u8>) -> u32;
pub uninterp spec fn spec_frame(cdata: Seq<u8>, crc: u32, isize: int) -> Seq<u8>;   // defined in unit bgzf.frame_w

pub open spec fn is_frame(f: Seq<u8>, payload: Seq<u8>) -> bool {
    exists|c: Seq<u8>| #[trigger] spec_inflate(c) == payload && f == spec_frame(c, spec_crc32(payload), payload.len() as int) && c.len() + 26 <= 65536 && f.len() == c.len() + 26
}
// the sink grew by exactly one frame carrying `payload`
pub open spec fn one_frame(before: Seq<u8>, after: Seq<u8>, payload: Seq<u8>) -> bool {
    exists|f: Seq<u8>| after == before + f && #[trigger] is_frame(f, payload)
}

pub open spec fn flushed(before: Seq<u8>, mid: Seq<u8>, staged: Seq<u8>) -> bool {
    if staged.len() == 0 { mid == before } else { one_frame(before, mid, staged) }
}
pub mod deflate {
    use vstd::prelude::*;
    use super::*;
    #[verifier::external_body]
    pub fn encode(src: &[u8], compression_level: i32, dst: &mut Vec<u8>) -> (r: io::Result<u32>)
        ensures r matches Ok(crc) ==> crc == spec_crc32(src@) && spec_inflate(final(dst)@) == src@ && (src@.len() <= MAX_BUF_SIZE ==> final(dst)@.len() <= 65510)
    { unimplemented!() }
}
#[verifier::external_body]
pub fn write_frame<W: Write>(writer: &mut W, compressed_data: &[u8], crc32: u32, uncompressed_size: usize) -> (r: io::Result<usize>)
    requires compressed_data@.len() <= usize::MAX - 26,
    ensures
        r matches Ok(bs) ==> bs == 26 + compressed_data@.len() && bs <= 65536
            && final(writer).bytes() == old(writer).bytes() + spec_frame(compressed_data@, crc32, uncompressed_size as int)
            && spec_frame(compressed_data@, crc32, uncompressed_size as int).len() == bs
            && final(writer).failed() == old(writer).failed(),
        r.is_err() ==> final(writer).failed() || compressed_data@.len() + 26 > 65536,
{ unimplemented!() }

pub struct Writer<W>
where
    W: Write,
{
    pub inner: Option<W>,
    pub position: u64,
    pub staging_buf: Vec<u8>,
    pub compression_buf: Vec<u8>,
    pub compression_level: CompressionLevelImpl,
}

impl<W> Writer<W>
where
    W: Write,
{
    pub open spec fn wf(&self) -> bool {
        self.inner.is_some() && self.staging_buf@.len() <= MAX_BUF_SIZE && self.position < 0x8000_0000_0000
    }
    pub open spec fn sink(&self) -> W { self.inner.unwrap() }

    fn flush_block(&mut self) -> (r: io::Result<()>)
        requires old(self).wf(),
        ensures final(self).inner.is_some(), final(self).staging_buf@.len() <= MAX_BUF_SIZE,
            r.is_ok() ==> final(self).staging_buf@.len() == 0
                && one_frame(old(self).sink().bytes(), final(self).sink().bytes(), old(self).staging_buf@)
                && final(self).position == old(self).position + (final(self).sink().bytes().len() - old(self).sink().bytes().len())
                && final(self).sink().failed() == old(self).sink().failed(),
            r.is_err() ==> final(self).staging_buf@ == old(self).staging_buf@ && final(self).position == old(self).position,
            final(self).position <= old(self).position + 65536,
            // never hides a sink failure
            final(self).sink().failed() && !old(self).sink().failed() ==> r.is_err(),
    {
        use crate::deflate;

        let compressed_data = &mut self.compression_buf;
        let crc32 = deflate::encode(&self.staging_buf, self.compression_level, compressed_data)?;

        let inner = self.inner.as_mut().unwrap();
        let uncompressed_size = self.staging_buf.len();
        let block_size = write_frame(inner, compressed_data, crc32, uncompressed_size)?;

        proof {
            let f = spec_frame(self.compression_buf@, crc32, uncompressed_size as int);
            assert(spec_inflate(self.compression_buf@) == old(self).staging_buf@);
            assert(is_frame(f, old(self).staging_buf@));
        }

        self.position += block_size as u64;

        self.staging_buf.clear();

        Ok(())
    }

    fn remaining(&self) -> (r: usize)
        requires self.staging_buf@.len() <= MAX_BUF_SIZE
        ensures r == MAX_BUF_SIZE - self.staging_buf@.len()
    {
        MAX_BUF_SIZE - self.staging_buf.len()
    }

    fn has_remaining(&self) -> (r: bool)
        ensures r == (self.staging_buf@.len() < MAX_BUF_SIZE)
    {
        self.staging_buf.len() < MAX_BUF_SIZE
    }

    // `impl Write for Writer<W>` methods, extracted as written
    fn write(&mut self, buf: &[u8]) -> (r: io::Result<usize>)
        requires old(self).wf(),
        ensures final(self).inner.is_some(), final(self).staging_buf@.len() <= MAX_BUF_SIZE,
            ({ let amt = if MAX_BUF_SIZE - old(self).staging_buf@.len() < buf@.len() { (MAX_BUF_SIZE - old(self).staging_buf@.len()) as int } else { buf@.len() as int };
               let staged1 = old(self).staging_buf@ + buf@.subrange(0, amt);
               &&& r matches Ok(n) ==> n == amt
               &&& r.is_ok() ==> (if staged1.len() == MAX_BUF_SIZE {
                            final(self).staging_buf@.len() == 0 && one_frame(old(self).sink().bytes(), final(self).sink().bytes(), staged1)
                        } else {
                            final(self).staging_buf@ == staged1 && final(self).sink().bytes() == old(self).sink().bytes()
                        })
               &&& r.is_err() ==> final(self).staging_buf@ == staged1 }),
            final(self).sink().failed() && !old(self).sink().failed() ==> r.is_err(),
    {
        let amt = self.remaining().min(buf.len());
        self.staging_buf.extend_from_slice(&buf[..amt]);

        proof { assert(self.staging_buf@ == old(self).staging_buf@ + buf@.subrange(0, amt as int)); }
        if !self.has_remaining() {
            self.flush()?;
        }

        Ok(amt)
    }

    fn flush(&mut self) -> (r: io::Result<()>)
        requires old(self).wf(),
        ensures final(self).inner.is_some(), final(self).staging_buf@.len() <= MAX_BUF_SIZE,
            r.is_ok() ==> final(self).staging_buf@.len() == 0
                && (if old(self).staging_buf@.len() == 0 { final(self).sink().bytes() == old(self).sink().bytes() }
                    else { one_frame(old(self).sink().bytes(), final(self).sink().bytes(), old(self).staging_buf@) }),
            r.is_err() ==> final(self).staging_buf@ == old(self).staging_buf@,
            final(self).position <= old(self).position + 65536,
            final(self).sink().failed() && !old(self).sink().failed() ==> r.is_err(),
    {
        if self.staging_buf.is_empty() {
            Ok(())
        } else {
            self.flush_block()
        }
    }

    pub fn try_finish(&mut self) -> (r: io::Result<()>)
        requires old(self).wf(),
        ensures
            r.is_ok() ==> exists|mid: Seq<u8>| #[trigger] flushed(old(self).sink().bytes(), mid, old(self).staging_buf@) && final(self).sink().bytes() == mid + BGZF_EOF@,
            final(self).sink().failed() && !old(self).sink().failed() ==> r.is_err(),
    {
        self.flush()?;

        let ghost mid = self.sink().bytes();
        let inner = self.inner.as_mut().unwrap();
        let result = inner.write_all(&BGZF_EOF);
        proof { if result.is_ok() { assert(flushed(old(self).sink().bytes(), mid, old(self).staging_buf@)); assert(self.sink().bytes() == mid + BGZF_EOF@); } }

        self.position += BGZF_EOF.len() as u64;

        result
    }
}
} // verus!
fn main() {}
