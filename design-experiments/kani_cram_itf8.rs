#[cfg(kani)]
mod proofs {
    use noodles_cram::io::reader::verif_hooks::*;
    use noodles_cram::io::writer::verif_hooks::*;

    // CRAM 3.1 §2.3.4 ITF8, written from the spec text
    fn spec_itf8(n: i32) -> ([u8; 5], usize) {
        let u = n as u32;
        if u < 0x80 { ([u as u8, 0, 0, 0, 0], 1) }
        else if u < 0x4000 { ([0x80 | (u >> 8) as u8, u as u8, 0, 0, 0], 2) }
        else if u < 0x20_0000 { ([0xc0 | (u >> 16) as u8, (u >> 8) as u8, u as u8, 0, 0], 3) }
        else if u < 0x1000_0000 { ([0xe0 | (u >> 24) as u8, (u >> 16) as u8, (u >> 8) as u8, u as u8, 0], 4) }
        else { ([0xf0 | (u >> 28) as u8, (u >> 20) as u8, (u >> 12) as u8, (u >> 4) as u8, (u & 0x0f) as u8], 5) }
    }

    #[kani::proof]
    fn itf8_encode_matches_spec() {
        let n: i32 = kani::any();
        let mut buf = [0u8; 8];
        let mut w = &mut buf[..];
        write_itf8(&mut w, n).unwrap();
        let written = 8 - w.len();
        let (exp, len) = spec_itf8(n);
        assert!(written == len);
        assert!(buf[..5] == exp);
    }

    #[kani::proof]
    fn itf8_decode_inverts_spec() {
        let n: i32 = kani::any();
        let (enc, len) = spec_itf8(n);
        let mut r = &enc[..len];
        let m = read_itf8(&mut r).unwrap();
        assert!(m == n);
        assert!(r.is_empty());
    }
}
