use vstd::prelude::*;
verus! {
global size_of usize == 8;
pub mod io {
    use vstd::prelude::*;
    #[derive(PartialEq, Eq, Clone, Copy)]
    pub enum ErrorKind { InvalidInput, InvalidData, UnexpectedEof, Interrupted, Other }
    pub struct Error { pub k: ErrorKind }
    impl Error {
        pub fn new<E>(kind: ErrorKind, e: E) -> (r: Error) ensures r.k == kind { Error { k: kind } }
        pub fn kind(&self) -> (r: ErrorKind) ensures r == self.k { self.k }
    }
    impl From<ErrorKind> for Error { fn from(k: ErrorKind) -> (r: Error) { Error { k } } }
    pub type Result<T> = core::result::Result<T, Error>;
}

#[verifier::external_type_specification]
#[verifier::external_body]
pub struct ExTryFromSliceError(core::array::TryFromSliceError);

pub assume_specification<T, const N: usize> [<[T]>::split_first_chunk::<N>] (s: &[T]) -> (r: Option<(&[T; N], &[T])>)
    ensures s@.len() >= N ==> r.is_some() && r.unwrap().0@ == s@.subrange(0, N as int) && r.unwrap().1@ == s@.subrange(N as int, s@.len() as int),
            s@.len() < N ==> r.is_none();
pub assume_specification<T, const N: usize> [<[T]>::split_last_chunk::<N>] (s: &[T]) -> (r: Option<(&[T], &[T; N])>)
    ensures s@.len() >= N ==> r.is_some() && r.unwrap().1@ == s@.subrange(s@.len() - N, s@.len() as int) && r.unwrap().0@ == s@.subrange(0, s@.len() - N),
            s@.len() < N ==> r.is_none();
pub assume_specification<'a, T: Copy, const N: usize> [<[T; N] as core::convert::TryFrom<&'a [T]>>::try_from] (s: &[T]) -> (r: Result<[T; N], core::array::TryFromSliceError>)
    ensures s@.len() == N ==> r.is_ok() && r.unwrap()@ == s@,
            s@.len() != N ==> r.is_err();

pub open spec fn le32(b: Seq<u8>) -> u32 { (b[0] as u32) | (b[1] as u32) << 8 | (b[2] as u32) << 16 | (b[3] as u32) << 24 }
#[verifier::external_body]
pub fn v_u32_from_le_bytes(b: [u8; 4]) -> (r: u32) ensures r == le32(b@) { v_u32_from_le_bytes(b) }

pub mod gz {
pub const MAGIC_NUMBER: [u8; 2] = [0x1f, 0x8b];
pub const HEADER_SIZE: usize = 10;
pub const TRAILER_SIZE: usize = 8;
}
pub const BGZF_HEADER_SIZE: usize = 18;
pub const BGZF_MAX_ISIZE: usize = 1 << 16;
const MIN_FRAME_SIZE: usize = BGZF_HEADER_SIZE + gz::TRAILER_SIZE;

type HeaderBuf = [u8; BGZF_HEADER_SIZE];
type TrailerBuf = [u8; gz::TRAILER_SIZE];

fn split_frame(buf: &[u8]) -> io::Result<(&HeaderBuf, &[u8], &TrailerBuf)> {
    if buf.len() < MIN_FRAME_SIZE {
        return Err(io::Error::new(
            io::ErrorKind::UnexpectedEof,
            "invalid frame size",
        ));
    }

    // SAFETY: `buf.len() >= BGZF_HEADER_SIZE`.
    let (header, _) = buf.split_first_chunk().unwrap();

    let end = buf.len() - gz::TRAILER_SIZE;
    let cdata = &buf[BGZF_HEADER_SIZE..end];

    // SAFETY: `buf.len() >= gz::TRAILER_SIZE`.
    let (_, trailer) = buf.split_last_chunk().unwrap();

    Ok((header, cdata, trailer))
}

fn is_valid_header(src: &HeaderBuf) -> bool {
    const BGZF_CM: u8 = 0x08; // DEFLATE
    const BGZF_FLG: u8 = 0x04; // FEXTRA
    const BGZF_XLEN: [u8; 2] = [0x06, 0x00];
    const BGZF_SI: [u8; 2] = *b"BC";
    const BGZF_SLEN: [u8; 2] = [0x02, 0x00];

    src[0..2] == gz::MAGIC_NUMBER
        && src[2] == BGZF_CM
        && src[3] == BGZF_FLG
        && src[10..12] == BGZF_XLEN
        && src[12..14] == BGZF_SI
        && src[14..16] == BGZF_SLEN
}

fn parse_trailer(src: &TrailerBuf) -> io::Result<(u32, usize)> {
    // SAFETY: `src.len() == 8`.
    let crc32 = v_u32_from_le_bytes(src[..4].try_into().unwrap());

    // SAFETY: `src.len() == 8`.
    let isize = usize::try_from(v_u32_from_le_bytes(src[4..].try_into().unwrap()))
        .map_err(|e| io::Error::new(io::ErrorKind::InvalidData, e))?;

    if isize <= BGZF_MAX_ISIZE {
        Ok((crc32, isize))
    } else {
        Err(io::Error::new(
            io::ErrorKind::InvalidData,
            "invalid BGZF ISIZE",
        ))
    }
}
}
fn main(){}
