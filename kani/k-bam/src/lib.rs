//! Kani harnesses on the REAL noodles-bam field codecs (via cfg(noodles_verif) wrappers).
//! Full-domain, loop-free (or constant-bounded) => complete.
#![allow(dead_code)]
#[cfg(kani)]
mod proofs {
    use noodles_bam::record::codec::{encoder::verif_hooks::*, decoder::verif_hooks::*};
    use noodles_core::Position;
    use noodles_sam::alignment::record::cigar::{Op, op::Kind};

    // SAM v1 §5.3 reg2bin (C source transcribed), beg 0-based, end 0-based exclusive
    fn spec_reg2bin(beg: u64, end: u64) -> u64 {
        let end = end - 1;
        if beg >> 14 == end >> 14 { return ((1 << 15) - 1) / 7 + (beg >> 14); }
        if beg >> 17 == end >> 17 { return ((1 << 12) - 1) / 7 + (beg >> 17); }
        if beg >> 20 == end >> 20 { return ((1 << 9) - 1) / 7 + (beg >> 20); }
        if beg >> 23 == end >> 23 { return ((1 << 6) - 1) / 7 + (beg >> 23); }
        if beg >> 26 == end >> 26 { return ((1 << 3) - 1) / 7 + (beg >> 26); }
        0
    }

    // C05: the stored bin is the spec's reg2bin of the record's span for coordinates below 2^29
    #[kani::proof]
    fn bam_region_to_bin_is_spec_reg2bin() {
        let s: usize = kani::any();
        let e: usize = kani::any();
        kani::assume(1 <= s && s <= e && e <= (1usize << 29));
        let bin = __verif_region_to_bin(Position::try_from(s).unwrap(), Position::try_from(e).unwrap());
        assert!(bin as u64 == spec_reg2bin((s - 1) as u64, e as u64));
    }

    fn kind_of(k: u8) -> Kind {
        match k { 0 => Kind::Match, 1 => Kind::Insertion, 2 => Kind::Deletion, 3 => Kind::Skip, 4 => Kind::SoftClip,
                  5 => Kind::HardClip, 6 => Kind::Pad, 7 => Kind::SequenceMatch, _ => Kind::SequenceMismatch }
    }

    // C05: CIGAR op packing op_len<<4|op; lengths that do not fit 28 bits are rejected, not wrapped
    #[kani::proof]
    fn bam_cigar_op_roundtrip() {
        let k: u8 = kani::any(); kani::assume(k <= 8);
        let len: usize = kani::any();
        let op = Op::new(kind_of(k), len);
        match __verif_encode_op(op) {
            Ok(n) => {
                assert!(len < (1 << 28));
                assert!(n == ((len as u32) << 4 | k as u32));
                let back = __verif_decode_op(n).unwrap();
                assert!(back == op);
            }
            Err(_) => assert!(len >= (1 << 28)),
        }
    }

    // C15: decode_op is total
    #[kani::proof]
    fn bam_decode_op_total() {
        let n: u32 = kani::any();
        match __verif_decode_op(n) {
            Ok(op) => { assert!((n & 0xf) <= 8); assert!(op.len() == (n >> 4) as usize); }
            Err(_) => assert!((n & 0xf) > 8),
        }
    }

    // C05: base codes — case folding and N-mapping exactly as the BAM alphabet prescribes
    #[kani::proof]
    #[kani::unwind(18)]
    fn bam_base_codes() {
        let b: u8 = kani::any();
        let code = __verif_encode_base(b);
        const BASES: [u8; 16] = *b"=ACMGRSVTWYHKDBN";
        assert!(code < 16);
        let up = b.to_ascii_uppercase();
        let mut expected = 15u8;
        let mut i = 0; while i < 16 { if BASES[i] == up { expected = i as u8; } i += 1; }
        assert!(code == expected);
        let r: u8 = kani::any();
        assert!(__verif_pack_bases(b, r) == (code << 4) | __verif_encode_base(r));
    }

    // C05: positions that do not fit the i32 BAM field are rejected rather than wrapped; None <-> -1
    #[kani::proof]
    fn bam_position_roundtrip() {
        let p: usize = kani::any();
        let some: bool = kani::any();
        let pos = if some { kani::assume(p >= 1); Some(Position::try_from(p).unwrap()) } else { None };
        let mut dst = Vec::new();
        match __verif_write_position(&mut dst, pos) {
            Ok(()) => {
                assert!(dst.len() == 4);
                let n = i32::from_le_bytes([dst[0], dst[1], dst[2], dst[3]]);
                if some { assert!(p - 1 <= i32::MAX as usize); assert!(n as i64 == p as i64 - 1); } else { assert!(n == -1); }
                let mut src = &dst[..];
                let back = __verif_read_position(&mut src).unwrap();
                assert!(back == pos);
                assert!(src.is_empty());
            }
            Err(_) => { assert!(some && p - 1 > i32::MAX as usize); }
        }
    }

    // C15: read_position is total on arbitrary bytes
    #[kani::proof]
    fn bam_read_position_total() {
        let bytes: [u8; 6] = kani::any();
        let len: usize = kani::any(); kani::assume(len <= 6);
        let mut src = &bytes[..len];
        match __verif_read_position(&mut src) {
            Ok(_) => assert!(len >= 4 && src.len() == len - 4),
            Err(_) => {}
        }
    }

    // C05: l_seq that does not fit u32 is rejected
    #[kani::proof]
    fn bam_sequence_length_field() {
        let n: usize = kani::any();
        let mut dst = Vec::new();
        match __verif_write_sequence_length(&mut dst, n) {
            Ok(()) => { assert!(n <= u32::MAX as usize); assert!(dst.len() == 4 && u32::from_le_bytes([dst[0], dst[1], dst[2], dst[3]]) as usize == n); }
            Err(_) => assert!(n > u32::MAX as usize),
        }
    }
}
