//! Kani harnesses on the REAL noodles-cram integer codings (via cfg(noodles_verif) re-exports).
//! Each contract is a pre/post pair written from the CRAM 3.1 specification text, checked as a
//! triple `assume(pre); call real fn; assert(post)` over the FULL input domain (loop-free or
//! loops bounded by operand width with unwinding assertions) => complete, not bounded.
#![allow(dead_code)]
#[cfg(kani)]
mod proofs {
    use noodles_cram::io::reader::verif_hooks::*;
    use noodles_cram::io::writer::verif_hooks::*;

    // CRAM 3.1 §2.3.4 ITF8, written from the spec text
    fn spec_itf8(n: i32) -> ([u8; 5], usize) {
        let u = n as u32;
        if u < 0x80 { ([u as u8, 0, 0, 0, 0], 1) }
        else if u < 0x4000 { ([0x80 | (u >> 8) as u8, u as u8, 0, 0, 0], 2) }
        else if u < 0x20_0000 { ([0xc0 | (u >> 16) as u8, (u >> 8) as u8, u as u8, 0, 0], 3) }
        else if u < 0x1000_0000 { ([0xe0 | (u >> 24) as u8, (u >> 16) as u8, (u >> 8) as u8, u as u8, 0], 4) }
        else { ([0xf0 | (u >> 28) as u8, (u >> 20) as u8, (u >> 12) as u8, (u >> 4) as u8, (u & 0x0f) as u8], 5) }
    }

    #[kani::proof]
    fn itf8_encode_matches_spec() {
        let n: i32 = kani::any();
        let mut buf = [0u8; 8];
        let mut w = &mut buf[..];
        write_itf8(&mut w, n).unwrap();
        let written = 8 - w.len();
        let (exp, len) = spec_itf8(n);
        assert!(written == len);
        assert!(buf[..5] == exp);
    }

    #[kani::proof]
    fn itf8_decode_inverts_spec() {
        let n: i32 = kani::any();
        let (enc, len) = spec_itf8(n);
        let mut r = &enc[..len];
        let m = read_itf8(&mut r).unwrap();
        assert!(m == n);
        assert!(r.is_empty());
    }

    // the decoder's value contract as ASSUMED by the Verus unit cram.block (read_itf8 on a byte-slice cursor):
    // for every n and EVERY trailing bytes, reading spec_itf8(n) ++ rest returns n and leaves exactly rest
    #[kani::proof]
    fn itf8_decode_with_rest() {
        let n: i32 = kani::any();
        let (enc, len) = spec_itf8(n);
        let mut buf: [u8; 8] = kani::any();
        let mut i = 0; while i < 5 { if i < len { buf[i] = enc[i]; } i += 1; }
        let mut r = &buf[..];
        let m = read_itf8(&mut r).unwrap();
        assert!(m == n);
        assert!(r.len() == 8 - len);
    }

    // C07: the size bookkeeping used for landmarks/container length agrees with the encoder
    #[kani::proof]
    fn itf8_size_of_matches_encoding_length() {
        let n: i32 = kani::any();
        let (_, len) = spec_itf8(n);
        assert!(itf8_size_of(n) == len);
    }

    // CRAM 3.1 §2.3 LTF8: number of leading 1 bits in the first byte = number of extra bytes
    fn spec_ltf8(n: i64) -> ([u8; 9], usize) {
        let u = n as u64;
        let len = if u < 1 << 7 { 1 } else if u < 1 << 14 { 2 } else if u < 1 << 21 { 3 } else if u < 1 << 28 { 4 }
            else if u < 1 << 35 { 5 } else if u < 1 << 42 { 6 } else if u < 1 << 49 { 7 } else if u < 1 << 56 { 8 } else { 9 };
        let mut out = [0u8; 9];
        if len == 9 { out[0] = 0xff; let b = u.to_be_bytes(); let mut i = 0; while i < 8 { out[1 + i] = b[i]; i += 1; } }
        else {
            let prefix: u8 = if len == 1 { 0 } else { (0xffu16 << (9 - len)) as u8 };
            let b = u.to_be_bytes();
            let mut i = 0; while i < len { out[i] = b[8 - len + i]; i += 1; }
            out[0] |= prefix;
        }
        (out, len)
    }

    #[kani::proof]
    #[kani::unwind(10)]
    fn ltf8_encode_matches_spec() {
        let n: i64 = kani::any();
        let mut buf = [0u8; 12];
        let mut w = &mut buf[..];
        write_ltf8(&mut w, n).unwrap();
        let written = 12 - w.len();
        let (exp, len) = spec_ltf8(n);
        assert!(written == len);
        assert!(buf[..9] == exp);
    }

    #[kani::proof]
    #[kani::unwind(10)]
    fn ltf8_decode_inverts_spec() {
        let n: i64 = kani::any();
        let (enc, len) = spec_ltf8(n);
        let mut r = &enc[..len];
        let m = read_ltf8(&mut r).unwrap();
        assert!(m == n);
        assert!(r.is_empty());
    }

    // 7-bit VLQ, big-endian groups, continuation bit on all but the last byte
    fn spec_uint7(n: u32) -> ([u8; 5], usize) {
        let len = if n < 1 << 7 { 1 } else if n < 1 << 14 { 2 } else if n < 1 << 21 { 3 } else if n < 1 << 28 { 4 } else { 5 };
        let mut out = [0u8; 5];
        let mut i = 0;
        while i < len { let shift = 7 * (len - 1 - i); out[i] = ((n >> shift) & 0x7f) as u8 | if i + 1 < len { 0x80 } else { 0 }; i += 1; }
        (out, len)
    }

    #[kani::proof]
    #[kani::unwind(7)]
    fn uint7_encode_matches_spec() {
        let n: u32 = kani::any();
        let mut buf = [0u8; 8];
        let mut w = &mut buf[..];
        write_uint7(&mut w, n).unwrap();
        let written = 8 - w.len();
        let (exp, len) = spec_uint7(n);
        assert!(written == len);
        assert!(buf[..5] == exp);
    }

    #[kani::proof]
    #[kani::unwind(7)]
    fn uint7_decode_inverts_spec() {
        let n: u32 = kani::any();
        let (enc, len) = spec_uint7(n);
        let mut r = &enc[..len];
        let m = read_uint7(&mut r).unwrap();
        assert!(m == n);
        assert!(r.is_empty());
    }

    // C15: arbitrary bytes never panic and consume at most 5 / 9 / 6 bytes
    #[kani::proof]
    #[kani::unwind(7)]
    fn int_decoders_total() {
        let bytes: [u8; 10] = kani::any();
        let len: usize = kani::any(); kani::assume(len <= 10);
        let mut r = &bytes[..len]; let _ = read_itf8(&mut r); assert!(len - r.len() <= 5);
        let mut r = &bytes[..len]; let _ = read_ltf8(&mut r); assert!(len - r.len() <= 9);
        let mut r = &bytes[..len]; let _ = read_uint7(&mut r); assert!(len - r.len() <= 6);
    }
}
