// models/le.rs — little-endian byte conversions (R5).  `x.to_le_bytes()` / `T::from_le_bytes(..)`
// cannot be given an assume_specification (their signatures use `[u8; size_of::<T>()]`), so calls are
// renamed to these external_body wrappers whose bodies ARE the core calls.  TRUSTED: the stated
// byte order (cross-checked against core by Kani harness le_model_matches_core, thorough tier).
pub open spec fn le16(x: u16) -> Seq<u8> { seq![(x & 0xff) as u8, (x >> 8) as u8] }
pub open spec fn le32(x: u32) -> Seq<u8> { seq![(x & 0xff) as u8, ((x >> 8) & 0xff) as u8, ((x >> 16) & 0xff) as u8, ((x >> 24) & 0xff) as u8] }
pub open spec fn le64(x: u64) -> Seq<u8> { le32((x & 0xffff_ffff) as u32) + le32((x >> 32) as u32) }
pub open spec fn u16_le(b: Seq<u8>) -> u16 { (b[0] as u16) | (b[1] as u16) << 8 }
pub open spec fn u32_le(b: Seq<u8>) -> u32 { (b[0] as u32) | (b[1] as u32) << 8 | (b[2] as u32) << 16 | (b[3] as u32) << 24 }
pub open spec fn u64_le(b: Seq<u8>) -> u64 { (u32_le(b.subrange(0, 4)) as u64) | (u32_le(b.subrange(4, 8)) as u64) << 32 }
pub trait VLeBytes<const N: usize>: Sized {
    spec fn le_spec(self) -> Seq<u8>;
    fn v_to_le_bytes(self) -> (r: [u8; N]) ensures r@ == self.le_spec();
}
impl VLeBytes<2> for u16 {
    open spec fn le_spec(self) -> Seq<u8> { le16(self) }
    #[verifier::external_body]
    fn v_to_le_bytes(self) -> (r: [u8; 2]) { self.to_le_bytes() }
}
impl VLeBytes<4> for u32 {
    open spec fn le_spec(self) -> Seq<u8> { le32(self) }
    #[verifier::external_body]
    fn v_to_le_bytes(self) -> (r: [u8; 4]) { self.to_le_bytes() }
}
impl VLeBytes<8> for u64 {
    open spec fn le_spec(self) -> Seq<u8> { le64(self) }
    #[verifier::external_body]
    fn v_to_le_bytes(self) -> (r: [u8; 8]) { self.to_le_bytes() }
}
impl VLeBytes<4> for i32 {
    open spec fn le_spec(self) -> Seq<u8> { le32(self as u32) }
    #[verifier::external_body]
    fn v_to_le_bytes(self) -> (r: [u8; 4]) { self.to_le_bytes() }
}
#[verifier::external_body]
pub fn v_u16_from_le(b: [u8; 2]) -> (r: u16) ensures r == u16_le(b@) { u16::from_le_bytes(b) }
#[verifier::external_body]
pub fn v_u32_from_le(b: [u8; 4]) -> (r: u32) ensures r == u32_le(b@) { u32::from_le_bytes(b) }
#[verifier::external_body]
pub fn v_i32_from_le(b: [u8; 4]) -> (r: i32) ensures r == u32_le(b@) as i32 { i32::from_le_bytes(b) }
#[verifier::external_body]
pub fn v_u64_from_le(b: [u8; 8]) -> (r: u64) ensures r == u64_le(b@) { u64::from_le_bytes(b) }
