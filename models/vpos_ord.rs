// model: noodles_bgzf::VirtualPosition as an ordered newtype.
// The struct itself is extracted from /repo; what is TRUSTED here is the semantics of
// #[derive(PartialOrd, Ord)] on a one-field tuple struct (= order of the field).
pub mod bgzf {
use vstd::prelude::*;
use vstd::std_specs::cmp::*;
use core::cmp::Ordering;
//@ item file=noodles-bgzf/src/virtual_position.rs path="struct VirtualPosition" vis=pub fields=pub dropderive="Default"
//@ end
impl VirtualPosition { pub open spec fn v(self) -> u64 { self.0 } }
// TRUSTED: #[derive(Default)] on the u64 newtype yields 0
impl Default for VirtualPosition { fn default() -> (r: Self) ensures r.v() == 0 { VirtualPosition(0) } }
impl PartialOrdSpecImpl for VirtualPosition {
    open spec fn obeys_partial_cmp_spec() -> bool { true }
    open spec fn partial_cmp_spec(&self, other: &VirtualPosition) -> Option<Ordering> {
        if self.v() < other.v() { Some(Ordering::Less) } else if self.v() == other.v() { Some(Ordering::Equal) } else { Some(Ordering::Greater) }
    }
}
impl OrdSpecImpl for VirtualPosition {
    open spec fn obeys_cmp_spec() -> bool { true }
    open spec fn cmp_spec(&self, other: &VirtualPosition) -> Ordering {
        if self.v() < other.v() { Ordering::Less } else if self.v() == other.v() { Ordering::Equal } else { Ordering::Greater }
    }
}
impl Ord for VirtualPosition {
    #[verifier::external_body]
    fn cmp(&self, other: &VirtualPosition) -> (r: Ordering) { self.0.cmp(&other.0) }
}
impl PartialOrd for VirtualPosition {
    #[verifier::external_body]
    fn partial_cmp(&self, other: &VirtualPosition) -> (r: Option<Ordering>) { self.0.partial_cmp(&other.0) }
}
}
