// ---------------------------------------------------------------------------------------------
// models/io.rs — TRUSTED verification model of std::io (DESIGN §2.1).
// The contracts are the *documented* contracts of std, with ghost state; they are deliberately
// the weakest thing std promises (arbitrary short reads/writes, arbitrary Interrupted, arbitrary
// fill_buf window sizes), so code that relies on more fails its own postcondition.
// Extracted noodles code resolves `io::…`, `Read`, `Write`, `BufRead` to these items (R4).
// ---------------------------------------------------------------------------------------------
#[derive(Structural, PartialEq, Eq, Clone, Copy, Debug)]
pub enum ErrorKind { NotFound, InvalidInput, InvalidData, UnexpectedEof, Interrupted, WriteZero, Other }

pub mod io {
    use vstd::prelude::*;
    use vstd::std_specs::convert::*;
    pub use super::ErrorKind;
    #[derive(Debug)]
    pub struct Error { pub k: ErrorKind }
    impl Error {
        pub fn new<E>(kind: ErrorKind, _e: E) -> (r: Error) ensures r.k == kind { Error { k: kind } }
        pub fn kind(&self) -> (r: ErrorKind) ensures r == self.k { self.k }
    }
    impl FromSpecImpl<ErrorKind> for Error {
        open spec fn obeys_from_spec() -> bool { true }
        open spec fn from_spec(k: ErrorKind) -> Error { Error { k } }
    }
    impl From<ErrorKind> for Error {
        fn from(k: ErrorKind) -> (r: Error) { Error { k } }
    }
    pub type Result<T> = core::result::Result<T, Error>;

    // ---- std::io::Write (the SINK) ----
    // bytes(): everything the sink accepted so far; failed(): the sink has returned a hard error.
    pub trait Write {
        spec fn bytes(&self) -> Seq<u8>;
        spec fn failed(&self) -> bool;
        // ghost: whatever else identifies this sink (e.g. a wrapper's own bookkeeping); writing never changes it
        spec fn tag(&self) -> int;
        // write_all: Ok => exactly buf appended; Err => the sink failed (some prefix may have been appended)
        fn write_all(&mut self, buf: &[u8]) -> (r: Result<()>)
            ensures
                final(self).tag() == old(self).tag(),
                r.is_ok() ==> final(self).bytes() == old(self).bytes() + buf@ && final(self).failed() == old(self).failed(),
                r.is_err() ==> final(self).failed()
                    && exists|k: int| 0 <= k <= buf@.len() && final(self).bytes() == old(self).bytes() + #[trigger] buf@.subrange(0, k);
        // write: short writes allowed
        fn write(&mut self, buf: &[u8]) -> (r: Result<usize>)
            ensures
                r matches Ok(n) ==> n <= buf@.len() && final(self).bytes() == old(self).bytes() + buf@.subrange(0, n as int)
                    && final(self).failed() == old(self).failed(),
                r matches Err(e) ==> final(self).bytes() == old(self).bytes()
                    && (e.k != ErrorKind::Interrupted ==> final(self).failed())
                    && (e.k == ErrorKind::Interrupted ==> final(self).failed() == old(self).failed());
        fn flush(&mut self) -> (r: Result<()>)
            ensures final(self).bytes() == old(self).bytes(),
                r.is_ok() ==> final(self).failed() == old(self).failed(),
                r.is_err() ==> final(self).failed();
    }

    // ---- std::io::Read (the SOURCE) ----
    // remaining(): bytes not yet delivered; budget(): ghost bound on future Interrupted results
    // (termination); errored(): the source itself reported a hard error.
    pub trait Read {
        spec fn remaining(&self) -> Seq<u8>;
        spec fn budget(&self) -> nat;
        spec fn errored(&self) -> bool;
        fn read(&mut self, buf: &mut [u8]) -> (r: Result<usize>)
            ensures
                final(buf)@.len() == old(buf)@.len(),
                match r {
                    Ok(n) => n <= old(buf)@.len() && n <= old(self).remaining().len()
                        && (n == 0 ==> old(buf)@.len() == 0 || old(self).remaining().len() == 0)
                        && final(buf)@ == old(self).remaining().subrange(0, n as int) + old(buf)@.subrange(n as int, old(buf)@.len() as int)
                        && final(self).remaining() == old(self).remaining().subrange(n as int, old(self).remaining().len() as int)
                        && final(self).budget() == old(self).budget() && final(self).errored() == old(self).errored(),
                    Err(e) => final(buf)@ == old(buf)@ && final(self).remaining() == old(self).remaining()
                        && (e.k == ErrorKind::Interrupted ==> final(self).budget() < old(self).budget() && final(self).errored() == old(self).errored())
                        && (e.k != ErrorKind::Interrupted ==> final(self).errored()),
                };
        // documented contract of std::io::Read::read_exact
        fn read_exact(&mut self, buf: &mut [u8]) -> (r: Result<()>)
            ensures
                final(buf)@.len() == old(buf)@.len(),
                match r {
                    Ok(()) => old(self).remaining().len() >= old(buf)@.len()
                        && final(buf)@ == old(self).remaining().subrange(0, old(buf)@.len() as int)
                        && final(self).remaining() == old(self).remaining().subrange(old(buf)@.len() as int, old(self).remaining().len() as int)
                        && final(self).errored() == old(self).errored() && final(self).budget() <= old(self).budget(),
                    Err(e) => (e.k == ErrorKind::UnexpectedEof && !final(self).errored() ==> old(self).remaining().len() < old(buf)@.len())
                        && (e.k != ErrorKind::UnexpectedEof ==> final(self).errored()),
                };
    }

    // ---- std::io::Seek ----  file(): the whole underlying byte string (ghost); seeking past the end leaves nothing to read
    pub enum SeekFrom { Start(u64), End(i64), Current(i64) }
    pub trait Seek: Read {
        spec fn file(&self) -> Seq<u8>;
        fn seek(&mut self, pos: SeekFrom) -> (r: Result<u64>)
            ensures final(self).file() == old(self).file(), final(self).budget() == old(self).budget(),
                r.is_ok() ==> final(self).errored() == old(self).errored(),
                r.is_err() ==> final(self).errored(),
                pos matches SeekFrom::Start(p) ==> (r.is_ok() ==> r == Ok::<u64, Error>(p)
                    && final(self).remaining() == old(self).file().subrange(
                            if p <= old(self).file().len() { p as int } else { old(self).file().len() as int }, old(self).file().len() as int));
    }

    // ---- impl Read for &[u8] (std): copies min(len) bytes and advances the slice ----
    impl<'a> Read for &'a [u8] {
        open spec fn remaining(&self) -> Seq<u8> { self@ }
        open spec fn budget(&self) -> nat { 0 }
        open spec fn errored(&self) -> bool { false }
        #[verifier::external_body]
        fn read(&mut self, buf: &mut [u8]) -> (r: Result<usize>)
            ensures r matches Ok(n) && n == (if old(buf)@.len() <= old(self)@.len() { old(buf)@.len() } else { old(self)@.len() })
                && final(buf)@ == old(self)@.subrange(0, n as int) + old(buf)@.subrange(n as int, old(buf)@.len() as int)
                && final(self)@ == old(self)@.subrange(n as int, old(self)@.len() as int)
        { std::io::Read::read(self, buf).map_err(|_e| Error { k: ErrorKind::Other }) }
        #[verifier::external_body]
        fn read_exact(&mut self, buf: &mut [u8]) -> (r: Result<()>)
        { std::io::Read::read_exact(self, buf).map_err(|_e| Error { k: ErrorKind::Other }) }
    }

    // ---- std::io::BufRead ----
    // fill_buf returns a NON-EMPTY PREFIX OF ARBITRARY LENGTH of remaining() unless it is empty.
    pub trait BufRead: Read {
        // ghost: a lower bound the source happens to guarantee for its windows (UNCONSTRAINED — may be 0 or 1).
        // It only exists so that a contract can say "correct whenever the window holds at least N bytes".
        spec fn min_window(&self) -> nat;
        fn fill_buf(&mut self) -> (r: Result<&[u8]>)
            ensures final(self).remaining() == old(self).remaining(), final(self).min_window() == old(self).min_window(),
                r matches Ok(w) ==> (w@.len() >= old(self).min_window() || w@.len() == old(self).remaining().len()),
                final(self).budget() <= old(self).budget(),
                r matches Ok(w) ==> w@.len() <= old(self).remaining().len() && w@ == old(self).remaining().subrange(0, w@.len() as int)
                        && (w@.len() == 0 ==> old(self).remaining().len() == 0) && final(self).errored() == old(self).errored(),
                // an Err is recorded in errored(); an ErrorKind::Interrupted one also uses up some of the interruption budget (a source
                // interrupts finitely often — the same standing assumption as for Read::read — which is what lets a retry loop terminate)
                r matches Err(e) ==> final(self).errored() && (e.k == ErrorKind::Interrupted ==> final(self).budget() < old(self).budget());
        fn consume(&mut self, amt: usize)
            requires amt <= old(self).remaining().len(),
            ensures final(self).remaining() == old(self).remaining().subrange(amt as int, old(self).remaining().len() as int),
                final(self).budget() == old(self).budget(), final(self).errored() == old(self).errored(),
                final(self).min_window() == old(self).min_window();
        // documented contract of std::io::BufRead::read_until: everything up to and including the first `byte` (or up to the
        // end of input) is appended to buf; Interrupted is retried by std; on Err what was read so far may have been appended
        fn read_until(&mut self, byte: u8, buf: &mut Vec<u8>) -> (r: Result<usize>)
            ensures
                r matches Ok(n) ==> ({ let rem = old(self).remaining();
                    &&& n <= rem.len() && final(self).remaining() == rem.subrange(n as int, rem.len() as int) && final(buf)@ == old(buf)@ + rem.subrange(0, n as int)
                    &&& (forall|i: int| 0 <= i < n - 1 ==> rem[i] != byte)
                    &&& (n > 0 && rem[n - 1] == byte || n == rem.len() && (forall|i: int| 0 <= i < n ==> rem[i] != byte))
                    &&& final(self).errored() == old(self).errored() }),
                r.is_err() ==> final(self).errored(),
                final(self).min_window() == old(self).min_window();
    }
}
