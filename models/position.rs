// model: noodles_core::Position (a NonZero<usize> newtype).  TRUSTED: Position values are >= 1
// (type invariant of NonZero, stated as wf() in preconditions) and usize::from(p) is the wrapped value.
pub struct Position(pub usize);
impl Position {
    pub open spec fn v(self) -> usize { self.0 }
    pub open spec fn wf(self) -> bool { self.v() >= 1 }
}
impl FromSpecImpl<Position> for usize {
    open spec fn obeys_from_spec() -> bool { true }
    open spec fn from_spec(p: Position) -> usize { p.v() }
}
impl From<Position> for usize {
    fn from(p: Position) -> (r: usize) { p.0 }
}
