// model: noodles_core::Position with its derived order.  TRUSTED: NonZero<usize> >= 1 (wf),
// #[derive(PartialOrd, Ord)] on the newtype = order of the wrapped value, MIN = 1, MAX = usize::MAX.
#[derive(Clone, Copy, Debug, PartialEq, Eq)]
pub struct Position(pub usize);
impl Position {
    pub open spec fn v(self) -> usize { self.0 }
    pub open spec fn wf(self) -> bool { self.v() >= 1 }
    pub const MIN: Self = Position(1);
    pub const MAX: Self = Position(usize::MAX);
}
impl FromSpecImpl<Position> for usize {
    open spec fn obeys_from_spec() -> bool { true }
    open spec fn from_spec(p: Position) -> usize { p.v() }
}
impl From<Position> for usize {
    fn from(p: Position) -> (r: usize) { p.0 }
}
impl PartialOrdSpecImpl for Position {
    open spec fn obeys_partial_cmp_spec() -> bool { true }
    open spec fn partial_cmp_spec(&self, other: &Position) -> Option<Ordering> {
        if self.v() < other.v() { Some(Ordering::Less) } else if self.v() == other.v() { Some(Ordering::Equal) } else { Some(Ordering::Greater) }
    }
}
impl OrdSpecImpl for Position {
    open spec fn obeys_cmp_spec() -> bool { true }
    open spec fn cmp_spec(&self, other: &Position) -> Ordering {
        if self.v() < other.v() { Ordering::Less } else if self.v() == other.v() { Ordering::Equal } else { Ordering::Greater }
    }
}
impl Ord for Position {
    #[verifier::external_body]
    fn cmp(&self, other: &Position) -> (r: Ordering) { self.0.cmp(&other.0) }
}
impl PartialOrd for Position {
    #[verifier::external_body]
    fn partial_cmp(&self, other: &Position) -> (r: Option<Ordering>) { self.0.partial_cmp(&other.0) }
}
// TRUSTED std: core::cmp::{min, max} (documented: min returns the first argument when equal, max the second)
pub assume_specification<T: Ord>[ core::cmp::min ](a: T, b: T) -> (r: T)
    ensures T::obeys_cmp_spec() ==> r == (if b.cmp_spec(&a) == Ordering::Less { b } else { a });
pub assume_specification<T: Ord>[ core::cmp::max ](a: T, b: T) -> (r: T)
    ensures T::obeys_cmp_spec() ==> r == (if b.cmp_spec(&a) == Ordering::Less { a } else { b });
