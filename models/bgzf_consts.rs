// constants of noodles-bgzf, extracted from /repo (gz.rs, lib.rs)
pub mod gz {
//@ item file=noodles-bgzf/src/gz.rs path="const MAGIC_NUMBER" vis=pub
//@ end
//@ item file=noodles-bgzf/src/gz.rs path="const MTIME_NONE" vis=pub
//@ end
//@ item file=noodles-bgzf/src/gz.rs path="const HEADER_SIZE" vis=pub
//@ end
//@ item file=noodles-bgzf/src/gz.rs path="const TRAILER_SIZE" vis=pub
//@ end
//@ item file=noodles-bgzf/src/gz.rs path="enum CompressionMethod" vis=pub
//@ end
//@ item file=noodles-bgzf/src/gz.rs path="enum OperatingSystem" vis=pub
//@ end
}
//@ item file=noodles-bgzf/src/lib.rs path="const GZIP_XLEN_SIZE" vis=pub
//@ end
//@ item file=noodles-bgzf/src/lib.rs path="const BGZF_XLEN" vis=pub
//@ end
//@ item file=noodles-bgzf/src/lib.rs path="const BGZF_HEADER_SIZE" vis=pub
//@ end
//@ item file=noodles-bgzf/src/lib.rs path="const BGZF_MAX_ISIZE" vis=pub
//@ replace R12 "= 1 << 16;" => "= 65536;"
//@ end
// R12 check: the literal substituted above equals the initialiser expression in /repo
proof fn r12_bgzf_max_isize() ensures (1usize << 16) == 65536 { assert((1usize << 16) == 65536) by (bit_vector); }
