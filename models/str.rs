// models/str.rs — TRUSTED: std UTF-8 validation. `spec_is_utf8` is uninterpreted: the contracts only say that
// from_utf8 is a total function of the bytes that never panics and returns Ok exactly for the byte strings it accepts.
#[verifier::external_type_specification]
#[verifier::external_body]
pub struct ExUtf8Error(core::str::Utf8Error);
pub uninterp spec fn spec_is_utf8(b: Seq<u8>) -> bool;
pub uninterp spec fn spec_str_bytes(s: &str) -> Seq<u8>;
pub assume_specification<'a>[ <str>::from_utf8 ](v: &'a [u8]) -> (r: core::result::Result<&'a str, core::str::Utf8Error>)
    ensures r.is_ok() == spec_is_utf8(v@), r matches Ok(s) ==> spec_str_bytes(s) == v@;
